"""C18 — results stay in the dtype of the input (full for the promotion clause).

DTYPE-TAINT: interprocedural taint analysis on the abstract interpreter of ``absint``.

Datum of a value: ``(cls, S, W)``
    cls  0 = Python scalar (weak under NEP 50), 1 = unknown (a parameter), 2 = NumPy value
         whose dtype follows the input ("array-like")
    S    labels of *strong 64-bit scalars / integer arrays* it may be (np.prod(shape),
         arange, argmax, ...): harmless as counts and indices, promoting when combined with
         an input-typed array
    W    labels of *wide float* sources it may stem from: context-free allocations
         (zeros/ones/eye without **context / dtype), raw RNG draws, explicit wide dtypes,
         and promotions S (x) array
A public entry point that returns (or stores on ``self`` in ``fit``) a value with W != {}
silently promotes single precision input to double precision.
"""

from __future__ import annotations

import ast
from typing import Dict, List, Optional

from ..absint import NONE, Const, Dct, Domain, Fn, Interp, Leaf, Lst, Mod, Obj, Sym, Tup, V
from ..common import Ctx, src
from ..model import AnalysisError, FunctionInfo

NOTHING, PY, UNK, ARR = 0, 1, 2, 3
E = frozenset()
BOT = (NOTHING, E, E)
PYNUM = (PY, E, E)
CLEAN = (ARR, E, E)
UNKNOWN = (UNK, E, E)

ALLOCATORS = {"zeros", "ones", "eye", "empty", "full", "identity"}
LIKE_ALLOC = {"zeros_like", "ones_like", "empty_like", "full_like"}
DRAWS = {"random_sample", "randn", "normal", "rand", "gamma", "uniform", "standard_normal", "random", "beta", "exponential", "dirichlet", "laplace", "lognormal"}
INT_DRAWS = {"randint", "choice", "permutation", "integers", "binomial", "poisson", "multinomial"}
INDEX_PRIMS = {"argmax", "argmin", "argsort", "arange", "count_nonzero", "unravel_index", "nonzero", "searchsorted", "unique"}
SHAPE_PRIMS = {"shape", "ndim", "is_tensor", "py_int", "py_float", "py_len"}
WIDE_TYPES = {"float64", "complex128", "float", "double", "longdouble", "complex", "float_"}
INT_TYPES = {"int64", "int32", "int", "bool", "bool_", "intp", "uint8", "int8", "int16"}
PASS_PRIMS = {
    "reshape", "transpose", "moveaxis", "flip", "diag", "copy", "conj", "abs", "sqrt", "sign", "clip", "sum",
    "mean", "max", "min", "prod", "norm", "cumsum", "sort", "concatenate", "stack", "trace", "log2", "log",
    "exp", "dot", "matmul", "tensordot", "einsum", "kron", "kr", "solve", "lstsq", "qr", "svd", "eigh",
    "where", "maximum", "minimum", "to_numpy", "any", "all", "sin", "cos", "tan", "tanh", "sinh", "cosh",
    "arcsin", "arccos", "arctan", "arcsinh", "arccosh", "arctanh", "logsumexp", "digamma", "partial_svd",
    "ceil", "floor", "round", "squeeze", "ravel", "tile", "repeat", "outer", "inner", "diagonal", "square",
    "power", "real", "imag", "isnan", "isfinite", "allclose", "array_equal", "linalg.norm", "pinv", "inv",
    "expand_dims", "swapaxes", "atleast_2d", "asarray", "ascontiguousarray", "triu", "tril", "cumprod", "std", "var",
    "py_min", "py_max", "py_sum", "py_abs", "py_round", "median", "average", "nansum", "fill_diagonal", "take", "isclose",
}


FIRST_ARG_PRIMS = {
    "reshape", "transpose", "moveaxis", "flip", "sum", "mean", "max", "min", "prod", "norm", "cumsum", "sort",
    "trace", "squeeze", "ravel", "tile", "repeat", "diagonal", "expand_dims", "swapaxes", "cumprod", "std", "var",
    "median", "round", "take", "svd", "qr", "eigh", "partial_svd", "any", "all", "linalg.norm", "triu", "tril",
    "logsumexp", "to_numpy", "copy", "diag",
}


SCALAR_MATH = {"prod", "sum", "sqrt", "ceil", "floor", "log", "log2", "exp", "abs", "max", "min", "mean", "round", "power", "sign", "square", "maximum", "minimum", "cumsum"}


BOOLMASK = "<boolean mask argument>"


def R(d):
    """labels of *real-valued reducers* (norm, abs, real, imag) the value may be nothing but: such a value is
    real-typed when the input is complex.  Optional 4th component of a datum; absent = empty."""
    return d[3] if len(d) > 3 else E


def with_R(d, r):
    return (d[0], d[1], d[2], frozenset(r)) if r else (d[0], d[1], d[2])


def _real_or_weak(d):
    return bool(R(d)) or (d[0] == PY and not d[1] and not d[2])


def jd(a, b):
    return with_R((max(a[0], b[0]), a[1] | b[1], a[2] | b[2]), R(a) | R(b))


REAL_PRIMS = {"norm", "real", "imag", "angle", "linalg.norm"}  # not abs: entrywise absolute values are how the non-negative variants (real by nature) sanitise their factors
FACTORISED = {"CPTensor", "TuckerTensor", "TTTensor", "TRTensor", "TTMatrix", "Parafac2Tensor"}


class Taint(Domain):
    name = "dtype-taint"

    def __init__(self, repo):
        self.repo = repo
        self.sources_seen = {}
        self.alloc_sites = {"with_context": 0, "without_context": 0}
        self._site_cache = {}
        self.real_sinks = {}

    # lattice
    def bottom(self):
        return BOT

    def join_d(self, a, b):
        if a is None:
            return b
        if b is None:
            return a
        return jd(a, b)

    def const_d(self, c):
        if isinstance(c, (int, float, complex)) and not isinstance(c, bool):
            return PYNUM
        return BOT

    def fresh_d(self, node=None):
        return BOT

    def unknown_d(self):
        return UNKNOWN

    # helpers
    def site(self, node, it, what):
        f = it.stack[-1].f if it.stack else None
        file = f.module.rel if f is not None else "?"
        lab = f"{file}:{getattr(node, 'lineno', 0)}: {what}: {src(node)[:80]}"
        self.sources_seen[lab] = (f.qname if f is not None else "?", node)
        return lab

    def numpy_fn(self, args: List[V], kwargs: Dict[str, V], node, it, what="numpy scalar computed from Python numbers", first_only=False):
        d = BOT
        ops = list(args[:1] if first_only else args) + [v for k, v in kwargs.items() if k in ("a_min", "a_max", "x", "y", "a", "b", "weights")]
        all_py = bool(ops)
        all_real = bool(ops)
        for a in ops:
            da = it.datum(a)
            if not (da[0] == PY and not da[1] and not da[2]):
                all_py = False
            if not _real_or_weak(da):
                all_real = False
            d = jd(d, da)
        if not all_real:
            d = (d[0], d[1], d[2])
        if all_py:
            # only Python numbers went in: the result is a strong 64-bit NumPy scalar
            return (PY, frozenset([self.site(node, it, what)]), E)
        if d[0] == NOTHING:
            return (UNK, d[1], d[2])
        return d

    def _promote(self, a, b, node, it):
        """datum of ``a (op) b`` for NumPy arithmetic"""
        # the documented mask: an array of booleans.  bool is the weakest array type: combined with an array
        # it takes that array's type; combined with a Python number it becomes an int64 / float64 array
        # (`1 - mask`), which is strong and promotes single-precision data like any other 64-bit array
        for x, y in ((a, b), (b, a)):
            if BOOLMASK in x[1]:
                rest = frozenset(x[1] - {BOOLMASK})
                if BOOLMASK in y[1]:
                    return (max(a[0], b[0]), a[1] | b[1], a[2] | b[2])
                if y[0] == PY and not y[1] and not y[2]:
                    lab = self.site(node, it, "arithmetic of the boolean mask with a Python number gives a 64-bit array")
                    x2 = (UNK, rest | {lab}, x[2])
                    return with_R((UNK, x2[1], x2[2]), E)
                # an array (or a parameter, which is taken to be one): the mask does not change its type
                x2 = (x[0], rest, x[2])
                return self._promote(x2, y, node, it) if x is a else self._promote(y, x2, node, it)
        W = a[2] | b[2]
        S = a[1] | b[1]
        # true division with an integer *array* on either side is float64 whatever the other operand is
        # (a float32 array, a Python number, a parameter of unknown nature)
        if isinstance(getattr(node, "op", None), ast.Div):
            for x in (a, b):
                ints = [l for l in x[1] if "integer array (int64)" in l]
                if ints and not x[2]:
                    W = W | {self.site(node, it, "true division by / of an int64 array (" + sorted(ints)[0][:80] + "): the quotient is float64")}
                    break
        if (a[1] and not a[2] and b[0] == ARR and not b[1]) or (b[1] and not b[2] and a[0] == ARR and not a[1]):
            strong = a[1] if a[1] else b[1]
            lab = self.site(node, it, "promotion of a strong 64-bit scalar/integer array (" + sorted(strong)[0][:90] + ") combined with an input-typed array")
            W = W | {lab}
        # real-only survives an operation only if no operand can bring the input's (complex) type in
        r = (R(a) | R(b)) if (_real_or_weak(a) and _real_or_weak(b)) else E
        return with_R((max(a[0], b[0]), S, W), r)

    def binop(self, op, a, b, node, it):
        da, db = it.datum(a), it.datum(b)
        if isinstance(op, (ast.BitAnd, ast.BitOr, ast.BitXor, ast.LShift, ast.RShift)):
            return Leaf((max(da[0], db[0]), da[1] | db[1], da[2] | db[2]))
        r = self._promote(da, db, node, it)
        if isinstance(a, Sym) or isinstance(b, Sym):
            return Sym(r)
        return Leaf(r)

    def unop(self, op, a, node, it):
        return Leaf(it.datum(a)) if not isinstance(a, Sym) else a

    def compare(self, a, b, node, it):
        # boolean results never promote; keep "array-ness" only
        return Leaf((max(it.datum(a)[0], it.datum(b)[0]), E, E))

    def subscript(self, base, index, node, it):
        # the index never taints the subscripted value
        return base

    def attribute(self, base, attr, node, it):
        if isinstance(base, (Leaf, Sym)):
            if attr in ("shape", "ndim", "size", "dtype"):
                return Leaf(PYNUM)
            if attr in ("real", "imag"):
                d0 = it.datum(base)
                return Leaf(with_R(d0, R(d0) | {self.site(node, it, f"real-valued .{attr} of an array")}))
            if attr in ("T", "flat"):
                return base
        return None

    def store_sub(self, base, index, value, node, it):
        # ``array[idx] = value`` casts the value to the array's dtype
        if isinstance(base, Leaf):
            return base
        return None

    def augassign(self, target, op, value, node, it):
        # in-place arithmetic keeps the target's dtype (same-kind casting)
        if isinstance(target, Leaf):
            d = target.d
            if d[0] in (PY, NOTHING) and not d[2]:
                return None  # Python number: ordinary arithmetic
            return target
        if isinstance(target, Sym):
            return None
        return None

    def unknown_call(self, name, args, kwargs, node, it):
        d = BOT
        for a in list(args) + list(kwargs.values()):
            d = jd(d, it.datum(a))
        return Sym((max(d[0], UNK), d[1], d[2]))

    # -- dtype keyword -----------------------------------------------------------------
    def _dtype_kind(self, v) -> Optional[str]:
        """'wide' | 'int' | 'ctx' | None(no dtype)"""
        if v is None:
            return None
        if isinstance(v, Const):
            return None if v.c is None else "ctx"
        if isinstance(v, Mod):
            nm = v.name.rsplit(".", 1)[-1].rsplit(":", 1)[-1]
            if nm in WIDE_TYPES:
                return "wide"
            if nm in INT_TYPES:
                return "int"
            return "ctx"
        return "ctx"

    def _ctx_datum(self, kwargs, positional_dtype, it):
        """datum of an array created in the dtype given by ``**ctx`` / ``dtype=``"""
        w = E
        for v in (kwargs.get("**"), kwargs.get("dtype"), positional_dtype):
            if v is not None and not isinstance(v, (Const, Mod)):
                w = w | it.datum(v)[2]
        return (ARR, E, w)

    def _alloc(self, name, args, kwargs, node, it, positional_dtype=None):
        dk = self._dtype_kind(kwargs.get("dtype", positional_dtype))
        has_ctx = "**" in kwargs or dk == "ctx"
        if dk == "wide":
            self.alloc_sites["without_context"] += 0
            return Leaf((ARR, E, frozenset([self.site(node, it, f"{name} with an explicit wide dtype")])))
        if dk == "int":
            return Leaf((ARR, frozenset([self.site(node, it, f"integer {name}")]), E))
        key = id(node)
        if has_ctx:
            if key not in self._site_cache:
                self._site_cache[key] = 1
                self.alloc_sites["with_context"] += 1
            return Leaf(self._ctx_datum(kwargs, positional_dtype, it))
        if key not in self._site_cache:
            self._site_cache[key] = 1
            self.alloc_sites["without_context"] += 1
        return Leaf((ARR, E, frozenset([self.site(node, it, f"{name} allocated without the input's context (defaults to float64)")])))

    def prim(self, name, args, kwargs, node, it):
        last = name.rsplit(".", 1)[-1]
        if last in ALLOCATORS:
            pd = None
            if last in ("zeros", "ones", "empty") and len(args) > 1:
                pd = args[1]
            if last == "full" and len(args) > 2:
                pd = args[2]
            return self._alloc(last, args, kwargs, node, it, pd)
        if last in LIKE_ALLOC:
            d = it.datum(args[0]) if args else BOT
            dk = self._dtype_kind(kwargs.get("dtype"))
            if dk == "wide":
                return Leaf((ARR, E, frozenset([self.site(node, it, f"{last} with an explicit wide dtype")])))
            return Leaf((ARR, d[1], d[2]))
        if last == "tensor" or last == "array" or last == "asarray":
            dk = self._dtype_kind(kwargs.get("dtype", args[1] if len(args) > 1 and last != "tensor" else None))
            if dk == "wide":
                return Leaf((ARR, E, frozenset([self.site(node, it, "tensor with an explicit wide dtype")])))
            if dk == "int":
                return Leaf((ARR, frozenset([self.site(node, it, "integer tensor")]), E))
            if "**" in kwargs or dk == "ctx":
                return Leaf(self._ctx_datum(kwargs, None, it))  # the cast sanitises
            d = it.datum(args[0]) if args else BOT
            if d[0] == PY and not d[1] and not d[2]:
                return Leaf((ARR, E, frozenset([self.site(node, it, "tensor built from Python numbers without the input's context (float64/int64)")])))
            return Leaf((max(d[0], UNK), d[1], d[2]))
        if last == "context":
            # the context *is* the dtype of its argument: it carries that argument's taint
            d = it.datum(args[0]) if args else BOT
            return Dct(None, Leaf((ARR, E, d[2])))
        if last == "astype":
            return Leaf(CLEAN)
        if last in ("eps", "finfo"):
            a = args[0] if args else None
            if isinstance(a, Mod) and a.name.rsplit(".", 1)[-1].rsplit(":", 1)[-1] in WIDE_TYPES:
                return Leaf((PY, frozenset([self.site(node, it, "machine epsilon of an explicit wide dtype")]), E))
            return Leaf(CLEAN)
        if last in SHAPE_PRIMS or last in ("check_random_state", "py_len"):
            return Leaf(PYNUM) if last != "check_random_state" else Sym(BOT)
        if last == "index_update":
            # the store casts to the updated tensor's dtype
            return args[0] if args and isinstance(args[0], (Leaf, Sym)) else Leaf(it.datum(args[0]) if args else BOT)
        if last in INDEX_PRIMS:
            d = BOT
            for a in args:
                d = jd(d, it.datum(a))
            what = "integer array (int64) from arange" if last == "arange" else "index / count result (int64)"
            return Leaf((ARR if d[0] == ARR else d[0], d[1] | frozenset([self.site(node, it, what)]), d[2]))
        if last in ("randn", "gamma") and not isinstance(args[0] if args else None, Mod):
            # backend draws: sanitised by their **context
            if "**" in kwargs or self._dtype_kind(kwargs.get("dtype")) == "ctx":
                return Leaf(self._ctx_datum(kwargs, None, it))
            return Leaf((ARR, E, frozenset([self.site(node, it, "random draw without the input's context")])))
        if last in PASS_PRIMS or name.startswith("numpy") or name.startswith("scipy") or name.startswith("math"):
            if name.startswith("math") or last in ("py_int", "py_float"):
                return Leaf(PYNUM)
            if last.startswith("py_"):
                d = BOT
                for a in args:
                    d = jd(d, it.datum(a))
                return Leaf(d)
            d = self.numpy_fn(args, kwargs, node, it, first_only=last in FIRST_ARG_PRIMS)
            if last not in SCALAR_MATH and d[1] and not any(it.datum(a)[1] for a in args):
                # layout / linear-algebra primitives are never applied to Python numbers at
                # run time: a Python-number operand here is an artefact of the abstraction
                d = (UNK, E, d[2])
            if last in ("svd", "qr", "eigh", "lstsq", "solve", "partial_svd", "slogdet"):
                return Sym(d)
            if last in REAL_PRIMS and d[0] != PY:
                d = with_R(d, R(d) | {self.site(node, it, f"real-valued result of {last}(...)")})
            return Leaf(d)
        return None

    def ext(self, dotted, args, kwargs, node, it):
        last = dotted.rsplit(".", 1)[-1]
        if dotted.startswith("numpy.random"):
            if last in DRAWS:
                return Leaf((ARR, E, frozenset([self.site(node, it, "raw draw from numpy.random (float64)")])))
            if last in INT_DRAWS:
                return Leaf((ARR, frozenset([self.site(node, it, "integer draw")]), E))
            return Sym(BOT)
        if dotted.startswith("warnings") or dotted.startswith("inspect") or dotted.startswith("importlib") or dotted.startswith("os") or dotted.startswith("sys") or dotted.startswith("functools") or dotted.startswith("copy"):
            d = BOT
            for a in args:
                d = jd(d, it.datum(a))
            return Sym(d) if dotted.startswith("copy") else Sym(BOT)
        if dotted.startswith("math"):
            return Leaf(PYNUM)
        if dotted.startswith("scipy.optimize"):
            return Sym((ARR, frozenset([self.site(node, it, "scipy.optimize result (index / float64 scalar)")]), E))
        return None

    def method(self, name, recv, args, kwargs, node, it):
        if name in DRAWS:
            return Leaf((ARR, E, frozenset([self.site(node, it, "raw random draw (float64)")])))
        if name in INT_DRAWS:
            return Leaf((ARR, frozenset([self.site(node, it, "integer draw")]), E))
        if isinstance(recv, (Leaf, Sym)):
            d = recv.d
            if name in ("reshape", "ravel", "transpose", "squeeze", "view", "copy", "conj", "flatten", "mean", "sum", "prod", "max", "min", "cumsum", "round", "dot", "clip", "std", "var", "trace", "diagonal", "swapaxes", "take", "repeat"):
                for a in args:
                    if name == "dot":
                        d = self._promote(d, it.datum(a), node, it)
                return Leaf(d) if isinstance(recv, Leaf) else Sym(d)
            if name == "astype":
                dk = self._dtype_kind(args[0] if args else kwargs.get("dtype"))
                if dk == "wide":
                    return Leaf((ARR, E, frozenset([self.site(node, it, "astype to an explicit wide dtype")])))
                if dk == "int":
                    return Leaf((ARR, frozenset([self.site(node, it, "astype to an integer dtype")]), E))
                return Leaf(CLEAN)
            if name in ("tolist", "item"):
                return Leaf(PYNUM)
            if name in ("argmax", "argmin", "argsort", "nonzero"):
                return Leaf((ARR, frozenset([self.site(node, it, "index result (int64)")]), E))
            if name in ("any", "all"):
                return Leaf(BOT)
            if name == "fill":
                return NONE
        return None

    def on_call(self, f: FunctionInfo, call, ct, binding, it):
        # a factorised-tensor object built from a component that may be nothing but a real-valued reduction
        if ct.cls is not None and ct.cls.name in FACTORISED:
            for pname, v in (binding or {}).items():
                if pname == f.self_name:
                    continue
                d = it.datum(v)
                if R(d):
                    where = it.stack[-1].f if it.stack else None
                    self.real_sinks[(where.qname if where is not None else "?", getattr(call, "lineno", 0))] = (where, call, ct.cls.name, sorted(R(d)))
        return None


# ---------------------------------------------------------------------------------
DOCUMENTED_WIDE = {
    "tensorly.metrics.leverage_scores.leverage_score_dist": "documented: leverage-score distributions are always double precision",
}
SKIP_ENTRY_MODULES = ("tensorly.testing", "tensorly.plugins", "tensorly.utils", "tensorly.backend", "tensorly.tenalg.base_tenalg")


def entry_points(repo):
    out = []
    for f in repo.iter_functions():
        if not f.is_public or f.parent is not None:
            continue
        if any(f.module.name == m or f.module.name.startswith(m + ".") for m in SKIP_ENTRY_MODULES):
            continue
        if f.module.name == "tensorly" or f.module.name.endswith("_tenalg"):
            if f.module.is_pkg:
                continue
        out.append(f)
    return sorted(out, key=lambda f: f.qname)


def symbolic_args(f: FunctionInfo, it: Interp, clean=UNKNOWN):
    args = {}
    for p in f.all_params:
        if p == f.self_name and f.cls is not None:
            args[p] = Obj(f.cls.qname, None, ())
        elif p == f.kwarg:
            args[p] = Dct(None, Leaf(CLEAN))  # **context of the caller: carries the dtype
        elif p == f.vararg:
            args[p] = Lst(None, Sym(clean), ())
        elif p == "mask" and clean is UNKNOWN:
            args[p] = Sym((UNK, frozenset([BOOLMASK]), E))  # documented as an array of booleans
        elif clean is UNKNOWN and p in f.defaults and isinstance(f.defaults[p], ast.Constant) and isinstance(f.defaults[p].value, (int, float)) and not isinstance(f.defaults[p].value, bool):
            args[p] = Sym(PYNUM)  # an option whose default is a Python number is a Python number (weak)
        else:
            args[p] = Sym(clean)
    return args


def run(ctx: Ctx):
    repo, res = ctx.repo, ctx.res
    res.rule("DTYPE-TAINT", "no context-free float allocation, raw RNG draw, explicit wide dtype or strong-int promotion flows (through promoting operators, containers, wrappers and calls) into a value returned by a public entry point or stored on self by a fit method", floor=150)
    res.assume(
        "NumPy >= 2 promotion rules (NEP 50): Python scalars are weak, NumPy scalars and arrays are strong; element stores and in-place operators cast to the target's dtype",
        "backends other than NumPy are out of scope",
        "parameters are of unknown nature (array or Python number): a strong scalar combined with a *parameter* is not reported (can miss, cannot over-report)",
        "value semantics: mutation through aliases is not tracked (a store through one name is not seen through another)",
        "documented exceptions: leverage-score distributions are double precision; index / count outputs are integers",
    )
    dom = Taint(repo)
    it = Interp(repo, dom)
    entries = entry_points(repo)
    n_ret = 0
    for f in entries:
        args = symbolic_args(f, it)
        try:
            r = it.call_function(f, args)
        except RecursionError:
            raise AnalysisError(f"recursion limit while analysing {f.qname}")
        vals = [("return", r.ret)]
        if f.cls is not None and f.name in ("fit", "fit_transform") and r.self_out is not None:
            vals.append(("self", r.self_out))
        if f.cls is not None and f.name == "__init__":
            vals = []
        for kind, v in vals:
            if v is None:
                continue
            d = it.datum(v)
            n_ret += 1
            res.instance("DTYPE-TAINT", f"{f.qname}:{kind}", nontrivial=bool(d[0] or d[1] or d[2]) or True, sample={"entry": f.qname, "sink": kind, "wide_sources": sorted(d[2])[:3], "strong_int_sources": len(d[1])} if (d[2] or n_ret % 40 == 0) else None)
            if d[2]:
                if f.qname in DOCUMENTED_WIDE:
                    continue
                for lab in sorted(d[2]):
                    fq, node = dom.sources_seen.get(lab, ("?", None))
                    origin = repo.functions.get(fq)
                    ctx.finding(
                        "DTYPE-TAINT",
                        origin if origin is not None else f,
                        node,
                        f"wide (float64) value reaches the {'return value' if kind=='return' else 'fitted attributes'} of public `{f.qname}`: single-precision input is silently promoted. Source: {lab}",
                        construct=(src(node) if node is not None else lab) + " -> " + f.qname.rsplit(".", 2)[-1],
                        entry=f.qname,
                        source=lab,
                    )
    res.rule("REAL-NARROWING", "no component handed to a factorised-tensor constructor (CPTensor, TuckerTensor, TTTensor, TRTensor, TTMatrix, Parafac2Tensor) can be nothing but a real-valued reduction (norm / abs / .real / .imag) of the data: it has to be combined with an array that carries the input's type, otherwise complex input yields real-typed weights / factors", floor=1)
    res.instance("REAL-NARROWING", "factorised-tensor constructions reached from the public entry points", sample={"constructions_with_a_real_only_component": len(dom.real_sinks)})
    for (fq, line), (where, call, cls_name, labs) in sorted(dom.real_sinks.items()):
        res.instance("REAL-NARROWING", f"{fq}: {src(call)[:60]}", sample={"class": cls_name, "real_sources": labs[:2], "ok": False})
        ctx.finding("REAL-NARROWING", where if where is not None else entries[0], call, f"`{src(call)[:80]}` builds a {cls_name} from a component that may be nothing but a real-valued reduction ({labs[0][:120]}): for complex input that component (weights / a factor) is real-typed, so the result does not stay in the numeric context of the data -- multiply it into an array that carries the input's context", construct=f"{cls_name} component is real-only")
    res.stats.update(
        {
            "public_entry_points": len(entries),
            "sinks_checked": n_ret,
            "summaries": it.summaries,
            "functions_analysed": len(it.functions_analysed),
            "cfg_node_visits": it.node_visits,
            "calls_resolved": it.calls_resolved,
            "calls_unresolved": it.calls_unresolved,
            "allocation_sites": dict(dom.alloc_sites),
            "source_sites_seen": len(dom.sources_seen),
            "unmodelled_primitives": dict(sorted(it.unmodelled.items(), key=lambda kv: -kv[1])[:30]),
        }
    )
