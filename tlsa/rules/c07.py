"""C07 — exact block-coordinate sweeps never increase the objective (partial: structural clauses).

Monotone descent itself quantifies over the values of every iterate and is not decided.
Two clauses of it are visible in the code and are necessary for it:

UPDATE-DEGREE       dimensional analysis of every least-squares block update (rules/homog.py).
                    The exact minimiser of  || X - A * K(others) ||  over the block A is
                    homogeneous of degree +1 in the data and -1 in every other block
                    (A* = X K^+).  If the value stored into the model has another degree d in the
                    other blocks, scale those blocks by c: the fitted part scales by c^(d+1) != 1,
                    so for c large (or small) enough the residual after the update exceeds the
                    residual before it, whatever the data -- the sweep increases the objective.
                    "Weights missing from the Gram matrix", "Gram product over all modes
                    instead of all-but-one", "MTTKRP of another mode's Khatri-Rao product" all
                    change this degree.  The drivers are evaluated from their first statement
                    with the data tensor and the initialiser's output as symbols; the degree of
                    the first store into the model at every store site is compared with the
                    exact minimiser's.
ACCEPT-GUARDED      a line-search extrapolation replaces the iterate only inside the true
                    branch of a test `error(extrapolated) < recorded error` (CP-ALS, PARAFAC2).

Not decided: descent itself, HOOI / PARAFAC2 projection steps (orthonormal factors carry no
degree), the coupled update of CMTF's shared factor (two data sets of different units are
stacked), the randomised TR-ALS.
"""

from __future__ import annotations

import ast

from ..common import Ctx, call_name, is_name, src
from ..model import AnalysisError, own_scope_nodes
from .homog import N, ONE, Deg, Evaluator, ListV, Other, Top, degree_of, fmt

FL = lambda sym="F": ListV(N, {sym: ONE}, {})
CP_INIT = ("obj", {"weights": Deg({"W": ONE}), "factors": FL()}, ["weights", "factors"])
X_ = Deg({"X": ONE}, order=N)
SOLVERS = {"hals_nnls", "fista", "active_set_nnls"}

CP_LS = {"X": ONE, "W": (-1, 0), "F": (1, -1)}
TR_LS = {"X": ONE, "F": (1, -1)}


def _randn_tucker(c, ev=None, env=None):
    # TuckerRegressor: the core is drawn with randn(*self.weight_ranks), the factors with randn(rows, cols)
    # (a starred tuple -- `randn(*(rows, cols))`, or a local bound to such a display -- is the two-argument
    # call written through a helper)
    def explicit_pair(a):
        if isinstance(a.value, (ast.Tuple, ast.List)):
            return True
        if ev is not None and isinstance(a.value, ast.Name):
            v = ev.ev(a.value, env)
            return isinstance(v, tuple) and v and v[0] == "tuple"
        return False

    return Deg({"G": ONE}) if any(isinstance(a, ast.Starred) and not explicit_pair(a) for a in c.args) else Deg({"F": ONE})


SPECS = [
    # (function, seeds, returns of initialisers, self attributes | None, model list -> expected, watched names -> expected, label)
    ("tensorly.decomposition._cp.parafac", {"tensor": X_}, {"initialize_cp": CP_INIT}, None, {"factors": CP_LS}, {}, "CP-ALS"),
    ("tensorly.decomposition._nn_cp.non_negative_parafac_hals", {"tensor": X_}, {"initialize_cp": CP_INIT}, None, {"factors": CP_LS}, {}, "HALS non-negative CP"),
    ("tensorly.decomposition._tr_als.tensor_ring_als", {"tensor": X_}, {"random_tr": FL()}, None, {"tr_decomp": TR_LS}, {}, "TR-ALS (lstsq)"),
    ("tensorly.decomposition._tr_als.tensor_ring_als", {"tensor": X_, "ls_solve": Other("normal_eq")}, {"random_tr": FL()}, None, {"tr_decomp": TR_LS}, {}, "TR-ALS (normal equations)"),
    (
        "tensorly.regression.cp_regression.CPRegressor.fit",
        {"X": Deg({"X": ONE}, order=(1, 1)), "y": Deg({"Y": ONE}, order=(1, 0))},
        {"randn": Deg({"F": ONE})},
        {"reg_W": Other(0)},
        {"W": {"Y": ONE, "X": (-1, 0), "F": (1, -1)}},
        {},
        "CP regressor (ridge 0)",
    ),
    (
        "tensorly.regression.tucker_regression.TuckerRegressor.fit",
        {"X": Deg({"X": ONE}, order=(1, 1)), "y": Deg({"Y": ONE}, order=(1, 0))},
        {"randn": _randn_tucker},
        {"reg_W": Other(0)},
        {"W": {"Y": ONE, "X": (-1, 0), "G": (-1, 0), "F": (1, -1)}},
        {},
        "Tucker regressor (ridge 0)",
    ),
    (
        "tensorly.decomposition._cmtf_als.coupled_matrix_tensor_3d_factorization",
        {"tensor_3d": Deg({"X": ONE}, order=(3, 0)), "matrix": Deg({"M": ONE})},
        {"initialize_cp": ("obj", {"weights": Deg({"W": ONE}), "factors": ListV((3, 0), {"F": ONE}, {})}, ["weights", "factors"])},
        None,
        {},
        {"V": {"M": ONE, "F": (-1, 0)}},
        "CMTF (matrix-side factor)",
    ),
    (
        "tensorly.decomposition._tucker.partial_tucker",
        {"tensor": X_, "mask": Other(None, True)},
        {"initialize_tucker": ("tuple", [Deg({"G": ONE}), ListV(N, {}, {})])},  # HOSVD start by specification: orthonormal factors, degree 0 (as in C09) -- the core may then be completed from the last partial projection
        None,
        {"factors": {}},
        {"core": {"X": ONE}},
        "HOOI (orthonormal factors carry no scale; the core is the projected data)",
    ),
]


def run(ctx: Ctx):
    res = ctx.res
    res.rule("UPDATE-DEGREE", "dimensional analysis of every least-squares block update: the value stored into the model by CP-ALS, HALS non-negative CP (HALS and unconstrained branch), TR-ALS (lstsq and normal equations), the CP / Tucker regressors' ridge ALS (ridge 0), CMTF's matrix-side factor and HOOI has the homogeneity degree of the exact block minimiser (+1 in the data, -1 in every other block, -1 in the weights)", floor=11)
    res.rule("ACCEPT-GUARDED", "a line-search extrapolation (anything computed from `jump`) replaces the iterate / is returned only in the true branch of a test `error of the extrapolated point < recorded error`", floor=2)
    res.assume(
        "decides two necessary conditions only; that the objective never increases is NOT decided (it quantifies over the values of every iterate)",
        "degree specification of the primitives: solve / lstsq(A, b) has degree b - A; hals_nnls / fista / active_set_nnls(UtM, UtU, ...) have the degree UtM - UtU of the exact NNLS solution (their own arithmetic is checked under C13 where claimed); svd returns scale-free singular vectors; khatri_rao / kronecker / multi_mode_dot / dot as in C02",
        "the drivers are analysed with ridge / l2 regularisation 0 (a ridge term makes the block problem inhomogeneous by design) and without mask / sparsity",
        "PARAFAC2's projection step, CMTF's coupled factor (tensor and matrix stacked: two different units) and the randomised TR-ALS are not covered",
    )
    ctx.guarded(update_degree, ctx)
    ctx.guarded(accept_guarded, ctx)
    res.rule("RIDGE-LIVE", "ridge ALS of the CP and Tucker regressors: the system matrix of every least-squares solve in fit (directly or through a helper, following parameter binding and defaults) depends on the ridge hyper-parameter self.reg_W -- all blocks minimise the same penalised objective", floor=4)
    ctx.guarded(ridge_live, ctx)
    from .affine import block_independent

    res.rule("BLOCK-INDEPENDENT", "the HALS NNLS inner solver's row update is an exact coordinate minimisation: in the affine-form domain of rules/affine.py the stored row does not depend on the old row after cancellation, for every combination of the sparsity / ridge coefficients (a damped step can increase the penalised objective)", floor=4)
    ctx.guarded(block_independent, ctx, "BLOCK-INDEPENDENT", "tensorly.solvers.nnls.hals_nnls", "V", ["sparsity_coefficient is not None", "ridge_coefficient is not None"])
    res.rule("ACCEPT-EVALUATED", "a line-search step that returns (model ..., error) returns the model the error was evaluated on: between the evaluation `error = f(..., model, ...)` and the return that hands both back, no part of that model is written (clipped, re-bound, stored into)", floor=1)
    ctx.guarded(accept_evaluated, ctx)
    res.rule("DERIVED-FRESH", "in every iterative driver, a local table derived element by element from the model (G = [f(x) for x in factors], G[i] = f(factors[i]): cached Gram matrices, norms) is rebuilt as a whole (a comprehension or a loop over every position of the model list) after the model list is re-bound as a whole (factors = ..., weights, factors = cp_normalize(...)) and before it is read again: a refresh over the swept modes only leaves the entries of the other (fixed) modes describing the old factors, and the block update built from them is not the minimiser of its block problem", floor=1)
    ctx.guarded(derived_fresh, ctx)
    res.rule("EXACT-SWEEP-SVD", "HOOI (partial_tucker): the SVD that updates a factor inside the sweep loop does not take its method from a caller option -- it is the interface's exact default. A caller-selectable method includes the randomised SVD (an approximate block update: the objective can rise between sweeps) and the Gram-matrix method (factors lose orthonormality below sqrt(eps)); the option may choose the initialisation only", floor=1)
    ctx.guarded(exact_sweep_svd, ctx, "EXACT-SWEEP-SVD")


def exact_sweep_svd(ctx: Ctx, rule: str):
    from ..inline import with_inlined

    f = with_inlined(ctx.repo, ctx.repo.func("tensorly.decomposition._tucker.partial_tucker"))
    loops = [n for n in f.node.body if isinstance(n, ast.For)]
    calls = [c for lp in loops for c in ast.walk(lp) if isinstance(c, ast.Call) and call_name(c) == "svd_interface"]
    if not calls:
        raise AnalysisError(f"{rule}: no svd_interface call inside partial_tucker's sweep loop any more; cannot decide")
    params = set(f.all_params)
    for c in calls:
        kw = next((k for k in c.keywords if k.arg == "method"), None)
        val = kw.value if kw is not None else (c.args[2] if len(c.args) > 2 else None)
        from_option = val is not None and not isinstance(val, ast.Constant)
        ctx.res.instance(rule, f"{f.qname}: {src(c)[:60]}", sample={"method": src(val) if val is not None else "(default)", "ok": not from_option})
        if from_option:
            ctx.finding(rule, f, c, f"partial_tucker: the factor update inside the HOOI sweep calls svd_interface with method=`{src(val)[:30]}`, a value the caller chooses: with 'randomized_svd' the block update is only approximate and the reconstruction error can rise from one sweep to the next; with 'symeig_svd' the factors lose orthonormality for singular values below sqrt(eps) and the core is no longer the projection of the data. The sweep must use the exact default", construct="partial_tucker: caller-selected SVD method inside the sweep")


_SNAPSHOTS = {"copy", "deepcopy", "clone"}  # a copy of the iterate is a snapshot (meant to stay behind), not a derived quantity

_DERIVED_FRESH_WITNESS = """
def driver(tensor, factors, weights, modes_list, n_iter_max):
    grams = [dot(transpose(f), f) for f in factors]
    for iteration in range(n_iter_max):
        for mode in modes_list:
            grams[mode] = dot(transpose(factors[mode]), factors[mode])
        for mode in modes_list:
            acc = 1
            for i, gram in enumerate(grams):
                if i != mode:
                    acc = acc * gram
            factors[mode] = solve(acc, mttkrp(tensor, factors, mode))
            grams[mode] = dot(transpose(factors[mode]), factors[mode])
        weights, factors = cp_normalize((weights, factors))
    return weights, factors
"""


def _derived_tables(fnode, model):
    """{table name: model list it is derived from} -- G = [f(x) for x in M] / G[i] = f(.. M[i] ..)"""
    out = {}
    for x in own_scope_nodes(fnode):
        if not isinstance(x, ast.Assign) or len(x.targets) != 1:
            continue
        t, v = x.targets[0], x.value
        if isinstance(t, ast.Name) and isinstance(v, ast.ListComp) and len(v.generators) == 1:
            it = v.generators[0].iter
            base = it.args[0] if isinstance(it, ast.Call) and call_name(it) == "enumerate" and it.args else it
            if isinstance(base, ast.Name) and base.id in model and t.id not in model and isinstance(v.elt, ast.Call) and call_name(v.elt) not in _SNAPSHOTS:
                out[t.id] = base.id
        elif isinstance(t, ast.Subscript) and isinstance(t.value, ast.Name) and t.value.id not in model and isinstance(t.slice, ast.Name):
            for n_ in ast.walk(v):
                if isinstance(n_, ast.Subscript) and isinstance(n_.value, ast.Name) and n_.value.id in model and isinstance(n_.slice, ast.Name) and n_.slice.id == t.slice.id and isinstance(v, ast.Call) and call_name(v) not in _SNAPSHOTS:
                    out.setdefault(t.value.id, n_.value.id)
    return out


def _covers_every_position(it, m) -> bool:
    """the iterable of a refresh loop runs over every position of the model list m"""
    if isinstance(it, ast.Call) and call_name(it) == "enumerate" and it.args and isinstance(it.args[0], ast.Name) and it.args[0].id == m:
        return True
    if isinstance(it, ast.Call) and call_name(it) == "range" and len(it.args) == 1:
        a = it.args[0]
        if isinstance(a, ast.Call) and call_name(a) in ("len", "ndim") :
            return True
        if isinstance(a, ast.Name) and a.id in ("n_modes", "n_dims", "ndim", "order", "n_factors"):
            return True
    return False


def _stale_reads(fnode, model):
    tables = _derived_tables(fnode, model)
    found = []
    if not tables:
        return tables, found

    def rebinds(stmt):
        out = set()
        if isinstance(stmt, (ast.Assign, ast.AugAssign, ast.AnnAssign)):
            tgts = stmt.targets if isinstance(stmt, ast.Assign) else [stmt.target]
            for t in tgts:
                for n_ in ([t] if isinstance(t, ast.Name) else list(t.elts) if isinstance(t, (ast.Tuple, ast.List)) else []):
                    if isinstance(n_, ast.Name):
                        out.add(n_.id)
                    elif isinstance(n_, (ast.Tuple, ast.List)):
                        out |= {e.id for e in n_.elts if isinstance(e, ast.Name)}
        return out

    def reads(node, g):
        return [n_ for n_ in ast.walk(node) if isinstance(n_, ast.Name) and n_.id == g and isinstance(n_.ctx, ast.Load)]

    def walk(stmts, state):
        for st in stmts:
            if isinstance(st, (ast.For, ast.While)):
                # a refresh loop over every position restores the table
                if isinstance(st, ast.For):
                    for g, m in tables.items():
                        if state.get(g) and reads(st.iter, g):
                            found.append((st, g, state[g]))
                        stores = [x for b in st.body for x in ast.walk(b) if isinstance(x, ast.Assign) and isinstance(x.targets[0], ast.Subscript) and isinstance(x.targets[0].value, ast.Name) and x.targets[0].value.id == g]
                        if stores and _covers_every_position(st.iter, m) and len(st.body) == len([b for b in st.body if any(x in ast.walk(b) for x in stores)]):
                            state[g] = None
                for _ in range(2):
                    walk(st.body, state)
                walk(st.orelse, state)
            elif isinstance(st, ast.If):
                a, b = dict(state), dict(state)
                for g in tables:
                    if state.get(g) and reads(st.test, g):
                        found.append((st, g, state[g]))
                walk(st.body, a)
                walk(st.orelse, b)
                for g in tables:
                    state[g] = a.get(g) or b.get(g)
            elif isinstance(st, (ast.With, ast.Try)):
                walk(getattr(st, "body", []), state)
                for h in getattr(st, "handlers", []):
                    walk(h.body, state)
                walk(getattr(st, "finalbody", []), state)
            else:
                rb = rebinds(st)
                for g, m in tables.items():
                    is_store = isinstance(st, ast.Assign) and isinstance(st.targets[0], ast.Subscript) and isinstance(st.targets[0].value, ast.Name) and st.targets[0].value.id == g
                    if state.get(g) and not is_store and g not in rb and reads(st, g):
                        found.append((st, g, state[g]))
                    if g in rb:
                        state[g] = None  # rebuilt as a whole
                    elif m in rb:
                        state[g] = st  # the model list is another object now
        return state

    walk(fnode.body, {g: None for g in tables})
    return tables, found


def derived_fresh(ctx: Ctx):
    from .drivers import DRIVERS

    repo, res = ctx.repo, ctx.res
    w = ast.parse(_DERIVED_FRESH_WITNESS).body[0]
    tabs, hits = _stale_reads(w, {"factors"})
    if tabs != {"grams": "factors"} or not hits:
        raise AnalysisError("DERIVED-FRESH: the built-in positive example (Gram cache refreshed over the swept modes only, factors re-bound by cp_normalize) is no longer reported; the detector is broken")
    n_tab = 0
    for qname, row in DRIVERS.items():
        if not repo.has_func(qname):
            continue
        f = repo.func(qname)
        model = {m for m in row.get("model", []) if m != "weights"} | set(row.get("candidates", []))
        tabs, hits = _stale_reads(f.node, model)
        n_tab += len(tabs)
        res.instance("DERIVED-FRESH", f"{qname}: tables derived from the model {sorted(tabs)}", sample={"stale_reads": len(hits), "ok": not hits})
        seen = set()
        for st, g, why in hits:
            if g in seen:
                continue
            seen.add(g)
            ctx.finding("DERIVED-FRESH", f, st, f"{f.name}: `{g}` holds values computed element by element from `{tabs[g]}`, `{tabs[g]}` is re-bound as a whole at line {why.lineno} (`{src(why)[:60]}`), and `{src(st)[:60]}` reads `{g}` again without a rebuild over every position in between (a refresh over the swept modes leaves the entries of the fixed modes describing the old factors): the block update is computed from stale quantities and is not the exact minimiser of its block problem, so the objective can increase", construct=f"{f.name}: stale read of {g}")
    res.instance("DERIVED-FRESH", "drivers examined (positive example recognised)", sample={"drivers": len(DRIVERS), "derived_tables": n_tab})


def update_degree(ctx: Ctx):
    repo, res = ctx.repo, ctx.res
    from ..inline import with_inlined

    for qname, seeds, rets, selfattrs, lists, names, label in SPECS:
        f = with_inlined(repo, repo.func(qname))  # private methods / module helpers of the driver are expanded
        missing = [p for p in seeds if p not in f.all_params]
        if missing:
            raise AnalysisError(f"UPDATE-DEGREE: {qname} no longer has parameter(s) {missing}")
        env = {}
        for p in f.all_params:
            if p in f.defaults and isinstance(f.defaults[p], ast.Constant):
                env[p] = Other(f.defaults[p].value, f.defaults[p].value is None)
            else:
                env[p] = Other()
        env.update(seeds)
        if selfattrs is not None:
            env[f.all_params[0]] = ("obj", dict(selfattrs), list(selfattrs))
        ev = Evaluator(ctx, f, {})
        ev.ctx_returns = dict(rets)
        ev.solver_prims = set(SOLVERS)
        ev.watch = set(names)
        ev.run(env)
        seen = set()
        n_here = 0
        for node, lname, key, d in ev.stores:
            if lname not in lists or id(node) in seen:
                continue
            seen.add(id(node))
            n_here += 1
            _compare(ctx, f, node, f"{lname}[{key}]", d, lists[lname], label)
        for stmt, name, d in ev.assigns:
            if id(stmt) in seen:
                continue
            seen.add(id(stmt))
            n_here += 1
            _compare(ctx, f, stmt, name, d, names[name], label)
        want = set(lists) | set(names)
        got = {l for _, l, _, _ in ev.stores} | {n for _, n, _ in ev.assigns}
        if not want <= got or n_here == 0:
            raise AnalysisError(f"UPDATE-DEGREE: {qname} [{label}]: no block update into {sorted(want - got) or sorted(want)} was found; the driver table is stale")


def _compare(ctx, f, node, what, got, exp, label):
    ok = got == exp
    if isinstance(got, Top) and got.lost:
        raise AnalysisError(f"UPDATE-DEGREE: the degree of the update stored in `{what}` by {f.qname} [{label}] could not be computed ({got.why}); cannot decide")
    ctx.res.instance("UPDATE-DEGREE", f"{f.qname} [{label}]: {what} @{src(node)[:40]}", sample={"line": getattr(node, "lineno", None), "degree": fmt(got), "expected": fmt(exp), "ok": ok})
    if not ok:
        ctx.finding(
            "UPDATE-DEGREE",
            f,
            node,
            f"[{label}] the block update stored in `{what}` has homogeneity degree {fmt(got)}, but the exact minimiser of this block's least-squares problem has degree {fmt(exp)} (X / Y / M = data, W = weights, G = core, F = one of the other factors, N = number of factors): the update does not solve its block problem -- e.g. weights or a factor missing from / doubled in the Gram matrix or the right-hand side -- and for suitably scaled inputs the sweep increases the objective",
            construct=f"{f.name} [{label}]: {what} degree {fmt(got)} != {fmt(exp)}",
        )


# ---------------------------------------------------------------------------------
LINESEARCH = [
    # (function, what acceptance looks like)
    "tensorly.decomposition._cp.parafac",
    "tensorly.decomposition._parafac2._BroThesisLineSearch.line_step",
]


def accept_guarded(ctx: Ctx):
    repo, res = ctx.repo, ctx.res
    for q in LINESEARCH:
        from ..inline import with_inlined

        f = with_inlined(repo, repo.func(q), kinds=("nested",))  # the extrapolation may be written in a nested helper
        nodes = list(own_scope_nodes(f.node))
        # the step length of the extrapolation: the name given `iteration ** (1 / acc_pow)` (a root of the
        # iteration count), whatever it is called
        tainted = set()

        def is_root_power(v):
            return isinstance(v, ast.BinOp) and isinstance(v.op, ast.Pow) and isinstance(v.right, ast.BinOp) and isinstance(v.right.op, ast.Div) and isinstance(v.right.left, ast.Constant) and v.right.left.value == 1

        jumps = [s for s in nodes if isinstance(s, ast.Assign) and len(s.targets) == 1 and isinstance(s.targets[0], ast.Name) and is_root_power(s.value)]
        if not jumps:
            raise AnalysisError(f"ACCEPT-GUARDED: {q} no longer computes a step length `iteration ** (1 / acc_pow)`; the line-search table is stale")
        jump_names = {s.targets[0].id for s in jumps}
        tainted |= jump_names

        def names_of(t):
            return [n.id for n in ast.walk(t) if isinstance(n, ast.Name)]

        def uses_tainted(e):
            return any(isinstance(n, ast.Name) and n.id in tainted for n in ast.walk(e))

        # extrapolated names: every definition of the name is computed from `jump`;
        # a name that also has a definition not involving the jump is part of the iterate itself
        defs = {}
        for s_ in nodes:
            if isinstance(s_, ast.Assign):
                for t in s_.targets:
                    if isinstance(t, (ast.Name, ast.Tuple)):
                        for nm in names_of(t):
                            defs.setdefault(nm, []).append(s_.value)
        # element writes: L.append(E) / L[i] = E define (part of) L
        elem_defs = {}
        for s_ in nodes:
            if isinstance(s_, ast.Expr) and isinstance(s_.value, ast.Call) and isinstance(s_.value.func, ast.Attribute) and s_.value.func.attr in ("append", "extend") and isinstance(s_.value.func.value, ast.Name) and len(s_.value.args) == 1:
                elem_defs.setdefault(s_.value.func.value.id, []).append(s_.value.args[0])
            if isinstance(s_, ast.Assign) and len(s_.targets) == 1 and isinstance(s_.targets[0], ast.Subscript) and isinstance(s_.targets[0].value, ast.Name):
                elem_defs.setdefault(s_.targets[0].value.id, []).append(s_.value)
        for nm, vs in elem_defs.items():
            if nm in defs:
                defs[nm].extend(vs)
        for p_ in f.all_params:
            defs.setdefault(p_, []).append(None)

        changed = True
        while changed:
            changed = False
            for nm, vs in defs.items():
                if nm in tainted or not vs or any(v is None for v in vs):
                    continue
                rest = [v for v in vs if not (isinstance(v, ast.List) and not v.elts and nm in elem_defs)]
                # an update of the name in terms of itself (clipping one entry) keeps what it is
                rest = [v for v in rest if not (nm in {n.id for n in ast.walk(v) if isinstance(n, ast.Name)} and not uses_tainted(v))]
                if any(uses_tainted(v) for v in rest) and all(uses_tainted(v) for v in rest):
                    tainted.add(nm)
                    changed = True
        parents = {}
        for p in ast.walk(f.node):
            for c in ast.iter_child_nodes(p):
                parents[c] = p

        def as_compare(t, positive):
            """the order comparison that holds when `t` is `positive`, as (left, op class, right), or None"""
            while isinstance(t, ast.UnaryOp) and isinstance(t.op, ast.Not):
                t, positive = t.operand, not positive
            if isinstance(t, ast.Compare) and len(t.ops) == 1 and isinstance(t.ops[0], (ast.Lt, ast.LtE, ast.Gt, ast.GtE)):
                op = type(t.ops[0])
                if not positive:
                    op = {ast.Lt: ast.GtE, ast.LtE: ast.Gt, ast.Gt: ast.LtE, ast.GtE: ast.Lt}[op]
                return (t.left, op, t.comparators[0], t)
            return None

        def leaves(block):
            return bool(block) and isinstance(block[-1], (ast.Return, ast.Raise, ast.Continue, ast.Break))

        def guard_of(stmt):
            """the innermost order comparison known to hold at stmt: the test of an enclosing `if` (body: as
            written, else-branch: negated) or the negated test of an earlier sibling `if` that always leaves
            (guard clause / early return)"""
            cur = stmt
            while cur in parents:
                p = parents[cur]
                for fld in ("body", "orelse"):
                    blk = getattr(p, fld, None)
                    if isinstance(blk, list) and any(cur is b for b in blk):
                        i = [k for k, b in enumerate(blk) if cur is b][0]
                        for sib in reversed(blk[:i]):
                            if isinstance(sib, ast.If) and leaves(sib.body) and not sib.orelse:
                                c = as_compare(sib.test, False)
                                if c is not None:
                                    return c
                            if isinstance(sib, ast.If) and sib.orelse and leaves(sib.orelse) and not leaves(sib.body):
                                c = as_compare(sib.test, True)
                                if c is not None:
                                    return c
                        if isinstance(p, ast.If):
                            c = as_compare(p.test, fld == "body")
                            if c is not None:
                                return c
                cur = p
            return None

        accepts = []
        for s_ in nodes:
            # iterate <- extrapolated: a name of the iterate (one that also has other definitions) receives an extrapolated value
            if isinstance(s_, ast.Assign) and uses_tainted(s_.value):
                tgs = [nm for t in s_.targets if isinstance(t, (ast.Name, ast.Tuple)) for nm in names_of(t)]
                if tgs and any(nm not in tainted for nm in tgs):
                    accepts.append(s_)
            if isinstance(s_, ast.Return) and s_.value is not None and any(isinstance(n, ast.Name) and n.id in tainted and n.id not in jump_names for n in ast.walk(s_.value)):
                accepts.append(s_)
        if not accepts:
            raise AnalysisError(f"ACCEPT-GUARDED: no acceptance of an extrapolated iterate found in {q}; the line-search table is stale")
        for a in accepts:
            g = guard_of(a)
            ok, why = False, "it is not inside the true branch of an error comparison"
            if g is not None:
                l, opc, r, _t = g
                if opc in (ast.Gt, ast.GtE):
                    l, r = r, l
                lt = any(isinstance(n, ast.Name) and n.id in tainted for n in ast.walk(l))
                rt = any(isinstance(n, ast.Name) and n.id in tainted for n in ast.walk(r))
                if lt and not rt:
                    ok = True
                elif rt and not lt:
                    why = "the comparison is reversed: the extrapolated point is accepted when its error is LARGER"
                else:
                    why = "the test does not compare the extrapolated point's error with the recorded error"
            res.instance("ACCEPT-GUARDED", f"{q}: {src(a)[:60]}", sample={"line": a.lineno, "guard": src(g[3])[:80] if g is not None else None, "ok": ok})
            if not ok:
                ctx.finding("ACCEPT-GUARDED", f, a, f"the line-search extrapolation is accepted by `{src(a)[:80]}` but {why}: an accepted jump can then increase the objective", construct=f"{f.name}: acceptance {src(a)[:60]}")


# ---------------------------------------------------------------------------------
# RIDGE-LIVE: every block update of a ridge ALS minimises the same (penalised) objective
# ---------------------------------------------------------------------------------
RIDGE_DRIVERS = [
    # (fit method, hyper-parameter attribute)
    ("tensorly.regression.cp_regression.CPRegressor.fit", "reg_W"),
    ("tensorly.regression.tucker_regression.TuckerRegressor.fit", "reg_W"),
]


def _depends(expr, tainted_names, attr, self_name):
    for n in ast.walk(expr):
        if isinstance(n, ast.Attribute) and n.attr == attr and is_name(n.value, self_name):
            return True
        if isinstance(n, ast.Name) and n.id in tainted_names:
            return True
    return False


def _closure(fnode, seeds, attr, self_name):
    """names that (may) depend on the hyper-parameter inside one function body"""
    t = set(seeds)
    changed = True
    while changed:
        changed = False
        for s in own_scope_nodes(fnode):
            if isinstance(s, ast.Assign) and _depends(s.value, t, attr, self_name):
                # the solution of a block problem depends on the ridge, of course: that is the model,
                # not a carrier of the ridge term into the next block's system matrix
                if any(isinstance(c, ast.Call) and call_name(c) in ("solve", "lstsq", "_ridge_solve") or (isinstance(c, ast.Call) and any(isinstance(x, ast.Call) and call_name(x) in ("solve", "lstsq") for x in ast.walk(c) if x is not c)) for c in ast.walk(s.value)):
                    continue
                for tg in s.targets:
                    names = [tg] if isinstance(tg, ast.Name) else ([e for e in tg.elts if isinstance(e, ast.Name)] if isinstance(tg, (ast.Tuple, ast.List)) else [])
                    for n in names:
                        if n.id not in t:
                            t.add(n.id)
                            changed = True
            elif isinstance(s, ast.AugAssign) and isinstance(s.target, ast.Name) and _depends(s.value, t, attr, self_name) and s.target.id not in t:
                t.add(s.target.id)
                changed = True
    return t


def _reaching(fnode, at_node, name, depth=0):
    """the value last assigned to `name` before `at_node`, looking backwards through the
    enclosing statement lists (the other arm of an `if` is never consulted)"""
    parent, field_of = {}, {}
    for p in ast.walk(fnode):
        for fld in ("body", "orelse", "finalbody", "handlers"):
            seq = getattr(p, fld, None)
            if isinstance(seq, list):
                for i, c in enumerate(seq):
                    if isinstance(c, ast.AST):
                        parent[c] = (p, seq, i)
    # the statement containing at_node
    stmt = None
    for st in parent:
        if isinstance(st, ast.stmt) and any(x is at_node for x in ast.walk(st)):
            if stmt is None or any(x is st for x in ast.walk(stmt)):
                stmt = st
    cur = stmt
    while cur is not None and cur in parent:
        p, seq, i = parent[cur]
        for prev in reversed(seq[:i]):
            if isinstance(prev, ast.Assign) and any(is_name(t, name) for t in prev.targets):
                return prev.value
            if isinstance(prev, (ast.If, ast.For, ast.While, ast.Try, ast.With)) and any(isinstance(x, ast.Assign) and any(is_name(t, name) for t in x.targets) for x in ast.walk(prev)):
                return None  # assigned inside a compound statement: fall back to the flow-insensitive answer
        cur = p if isinstance(p, ast.stmt) else None
    return None


def ridge_live(ctx: Ctx):
    """Exact block-coordinate descent needs every block to minimise the *same* objective.  With a
    ridge hyper-parameter every least-squares solve of the sweep must therefore carry the ridge
    term: the system matrix of each `solve` depends (data dependence, through helper parameters
    and their defaults) on the hyper-parameter.  A block solved without it minimises another
    objective, and the penalised objective can rise in that block's step."""
    from ..model import bind_call

    repo, res = ctx.repo, ctx.res
    for q, attr in RIDGE_DRIVERS:
        f = repo.func(q)
        self_name = f.all_params[0]
        if not any(isinstance(n, ast.Attribute) and n.attr == attr and is_name(n.value, self_name) for n in ast.walk(f.node)):
            raise AnalysisError(f"RIDGE-LIVE: {q} no longer reads self.{attr}; the driver table is stale")
        tainted = _closure(f.node, set(), attr, self_name)
        n_sites = 0
        for c in own_scope_nodes(f.node):
            if not isinstance(c, ast.Call):
                continue
            nm = call_name(c)
            if nm in ("solve", "lstsq") and c.args:
                n_sites += 1
                mat = c.args[0]
                if isinstance(mat, ast.Name):
                    rv = _reaching(f.node, c, mat.id)
                    if rv is not None:
                        mat = rv
                ok = _depends(mat, tainted - ({c.args[0].id} if isinstance(c.args[0], ast.Name) and mat is not c.args[0] else set()), attr, self_name)
                res.instance("RIDGE-LIVE", f"{f.qname}: {src(c)[:60]}", sample={"line": c.lineno, "system_matrix": src(c.args[0])[:60], "depends_on_ridge": ok})
                if not ok:
                    ctx.finding("RIDGE-LIVE", f, c, f"the system matrix `{src(c.args[0])[:70]}` of this block update does not depend on `self.{attr}`: this block minimises the unpenalised fit while the others minimise fit + ridge, so the sweep is not block-coordinate descent on one objective and the penalised objective can rise", construct=f"{f.name}: solve without self.{attr}: {src(c)[:60]}")
                continue
            ct = repo.resolve_call(f, f.module, c)
            if ct.kind != "repo" or len(ct.funcs) != 1 or ct.cha:
                continue
            g = ct.funcs[0]
            inner = [x for x in own_scope_nodes(g.node) if isinstance(x, ast.Call) and call_name(x) in ("solve", "lstsq") and x.args]
            if not inner or not g.module.name.startswith("tensorly.regression"):
                continue
            b = bind_call(c, g, ct.bound)
            # parameters of the helper that carry the ridge at this call site
            carried = {p for p, a in b.params.items() if _depends(a, tainted, attr, self_name)}
            # a parameter that receives the estimator itself (a lifted closure variable, or `est=self`): its
            # `.reg_W` inside the helper is the hyper-parameter
            self_in = next((p for p, a in b.params.items() if is_name(a, self_name)), "\0")
            inner_taint = _closure(g.node, carried, attr if self_in != "\0" else "\0", self_in)
            for x in inner:
                n_sites += 1
                mat = x.args[0]
                if isinstance(mat, ast.Name):
                    rv = _reaching(g.node, x, mat.id)
                    if rv is not None:
                        mat = rv
                ok = _depends(mat, inner_taint - ({x.args[0].id} if isinstance(x.args[0], ast.Name) and mat is not x.args[0] else set()), attr if self_in != "\0" else "\0", self_in)
                res.instance("RIDGE-LIVE", f"{f.qname}: {src(c)[:50]} -> {g.name}: {src(x)[:40]}", sample={"line": c.lineno, "helper": g.name, "ridge_carried_by": sorted(carried), "depends_on_ridge": ok})
                if not ok:
                    ctx.finding("RIDGE-LIVE", f, c, f"`{src(c)[:70]}` reaches `{src(x)[:50]}` in `{g.name}` with no argument that depends on `self.{attr}` (the helper's ridge parameter keeps its default): this block minimises the unpenalised fit while the others minimise fit + ridge, so the sweep is not block-coordinate descent on one objective", construct=f"{f.name}: {src(c)[:60]} solves without self.{attr}")
        if n_sites == 0:
            raise AnalysisError(f"RIDGE-LIVE: no least-squares solve found in {q}; the driver table is stale")


# ---------------------------------------------------------------------------------
# ACCEPT-EVALUATED: the accepted iterate is the evaluated one
# ---------------------------------------------------------------------------------
def accept_evaluated(ctx: Ctx):
    """In every `line_step` method of the PARAFAC2 module: a return `(M1, M2, ..., E)` whose E is
    the single-definition result of a call that takes some Mi as arguments must not be preceded
    (after that call) by a write to such an Mi.  The acceptance test `E < old error` is a statement
    about the evaluated model; a model modified afterwards has an error nobody computed, and the
    monotone-accept clause (an accepted jump does not increase the objective) is void."""
    res = ctx.res
    mod = ctx.repo.module("tensorly.decomposition._parafac2")
    funcs = [f for f in ctx.repo.functions.values() if f.module is mod and f.name == "line_step"]
    if not funcs:
        raise AnalysisError("ACCEPT-EVALUATED: no `line_step` method left in tensorly.decomposition._parafac2; cannot decide")
    n = 0
    for f in funcs:
        # positions
        chains = {}

        def index(block, outer):
            for i, st in enumerate(block):
                here = [(block, i)] + outer
                chains[id(st)] = here
                for fld in ("body", "orelse", "finalbody"):
                    sub = getattr(st, fld, None)
                    if isinstance(sub, list) and sub and isinstance(sub[0], ast.stmt) and not isinstance(st, (ast.FunctionDef, ast.ClassDef)):
                        index(sub, here)

        index(f.node.body, [])
        order = {id(st): k for k, st in enumerate(x for x in ast.walk(f.node) if isinstance(x, ast.stmt))}
        rets = [r for r in own_scope_nodes(f.node) if isinstance(r, ast.Return) and isinstance(r.value, ast.Tuple) and len(r.value.elts) >= 2]
        for r in rets:
            names = [e.id for e in r.value.elts if isinstance(e, ast.Name)]
            for e_name in names:
                defs = [s_ for s_ in own_scope_nodes(f.node) if isinstance(s_, ast.Assign) and len(s_.targets) == 1 and is_name(s_.targets[0], e_name) and isinstance(s_.value, ast.Call)]
                if len(defs) != 1:
                    continue
                d = defs[0]
                args = {a.id for a in d.value.args if isinstance(a, ast.Name)} | {k.value.id for k in d.value.keywords if isinstance(k.value, ast.Name)}
                model = [m for m in names if m != e_name and m in args]
                if not model:
                    continue
                n += 1
                # statements executed after d and before r on r's own chain
                bad = None
                for block, i in chains.get(id(r), []):
                    for st in block[:i]:
                        if st.lineno <= d.lineno:
                            continue
                        for x in ast.walk(st):
                            tgt = None
                            if isinstance(x, (ast.Assign, ast.AugAssign)):
                                for t in x.targets if isinstance(x, ast.Assign) else [x.target]:
                                    b = t
                                    while isinstance(b, (ast.Subscript, ast.Attribute)):
                                        b = b.value
                                    if isinstance(b, ast.Name) and b.id in model:
                                        tgt = (b.id, x)
                            elif isinstance(x, ast.Call) and isinstance(x.func, ast.Attribute) and isinstance(x.func.value, ast.Name) and x.func.value.id in model and x.func.attr in ("append", "insert", "pop", "extend", "__setitem__", "clear", "reverse", "sort"):
                                tgt = (x.func.value.id, x)
                            if tgt and bad is None:
                                bad = tgt
                res.instance("ACCEPT-EVALUATED", f"{f.qname}: return ({', '.join(names)})", sample={"error": e_name, "evaluated_on": model, "evaluation": src(d)[:80], "written_after_evaluation": src(bad[1])[:80] if bad else None, "ok": bad is None})
                if bad is not None:
                    ctx.finding("ACCEPT-EVALUATED", f, bad[1], f"{f.name}: `{src(bad[1])[:80]}` changes `{bad[0]}` after `{src(d)[:70]}` evaluated it and before `{src(r)[:60]}` hands both back: the acceptance test was made on a model that is not the one kept, so an accepted jump may increase the objective and the returned error is not the error of the returned factors", construct=f"{f.name}: {bad[0]} written between evaluation and return")
    if n == 0:
        raise AnalysisError("ACCEPT-EVALUATED: no return of the form (model ..., error) with the error evaluated on the model was found in line_step; cannot decide")
