"""C06 — reported reconstruction errors (partial: structural clauses).

FRESH-ERROR        every reported error was computed from the model state it is reported
                   for (branch-consistent path exploration with a version relation), and the
                   last report on every path matches the returned model
CALLBACK-PROTOCOL  every call of a driver's callback passes (decomposition, error)
REL-UNIT           every reported value is a quotient by the data norm
SQRT-GUARD         a sqrt of a cancellation-prone difference is wrapped in abs
LAST-MODE          the MTTKRP shortcut is only used when the sweep's last mode is the last mode
"""

from __future__ import annotations

import ast
from typing import Dict, List, Optional

from ..cfg import all_assigned_names, build_cfg, make_opaque, names_in
from ..common import Ctx, call_name, is_name, src
from ..explore import Explorer
from ..model import AnalysisError, FunctionInfo, own_scope_nodes
from .drivers import DRIVERS, base_name, callee_name, driver, flat_targets, report_sites

SQRT_SCOPE_EXTRA = [
    "tensorly.decomposition._cp.error_calc",
    "tensorly.decomposition._parafac2._parafac2_reconstruction_error",
    "tensorly.decomposition._parafac2._BroThesisLineSearch.line_step",
]


# ---------------------------------------------------------------------------------
# slice of names that matter for a driver
# ---------------------------------------------------------------------------------
def derived_names(f: FunctionInfo, row) -> set:
    """Names through which a reported value may depend on the model: the backward slice of
    the reported expressions (not continued through definitions that already mention every
    model variable directly) intersected with the forward closure of the model variables."""
    M = set(row["model"])
    MC = M | set(row.get("candidates", []))
    # the data and its norm never make a reported value "fresh": freshness must come from
    # the error term itself (a stale numerator over an up-to-date norm is still stale)
    skip = MC | {row["errs"], row.get("callback"), row.get("data")} | set(row.get("norm", []))
    defs = []  # (targets, value)
    for s in own_scope_nodes(f.node):
        if isinstance(s, ast.Assign):
            tg = [b for t in s.targets for b in (base_name(x) for x in flat_targets(t)) if b]
            defs.append((tg, s.value))
        elif isinstance(s, ast.AugAssign):
            defs.append(([base_name(s.target)], s.value))
        elif isinstance(s, (ast.For, ast.AsyncFor)):
            defs.append(([b for b in (base_name(x) for x in flat_targets(s.target)) if b], s.iter))
    # forward closure: names that may depend on a model variable
    fwd = set(MC)
    changed = True
    while changed:
        changed = False
        for tg, val in defs:
            if names_in(val) & fwd:
                for t in tg:
                    if t and t not in fwd:
                        fwd.add(t)
                        changed = True
    local = f.local_names()
    D = set()
    for kind, node, val in report_sites(f, row):
        if val is not None:
            D |= names_in(val)
    D -= skip
    D = {n for n in D if n in local}  # functions / modules named in a reported expression (sqrt, tl) are not values of the run
    changed = True
    while changed:
        changed = False
        for tg, val in defs:
            if not any(t in D for t in tg):
                continue
            ns = names_in(val)
            if M <= ns:
                continue  # depends on every model variable directly: nothing indirect to follow
            for n in ns:
                if n in local and n not in skip and n not in D and n in fwd:
                    D.add(n)
                    changed = True
    return {d for d in D if d in fwd or True}


class _Prune(Exception):
    pass


class FreshRule:
    def __init__(self, f: FunctionInfo, row, D: set):
        self.f, self.row = f, row
        self.M = list(row["model"])
        self.C = list(row.get("candidates", []))
        self.MC = set(self.M) | set(self.C)
        self.D = set(D)
        self.errs = row["errs"]
        self.cb = row.get("callback")
        self.preserving = set(row.get("preserving", []))
        self.bundle_calls = set(row.get("bundle_calls", []))
        self.tracked = self.MC | self.D
        self.reports_seen = 0
        self._use_cache = {}

    def relevant(self, n) -> bool:
        if isinstance(n, ast.Name) and isinstance(n.ctx, ast.Store) and n.id in self.tracked:
            return True
        if isinstance(n, (ast.Subscript, ast.Attribute)) and isinstance(n.ctx, ast.Store):
            b = base_name(n)
            return b in self.tracked or b == self.errs
        if isinstance(n, ast.Call):
            fn = n.func
            if isinstance(fn, ast.Attribute) and isinstance(fn.value, ast.Name) and (fn.value.id == self.errs or fn.value.id in self.MC):
                return fn.attr in ("append", "insert", "pop", "remove", "extend", "clear")
            if self.cb and isinstance(fn, ast.Name) and fn.id == self.cb:
                return True
        if isinstance(n, (ast.Return, ast.Break, ast.Continue)):
            return True
        return False

    def opaque(self, stmt) -> bool:
        for n in ast.walk(stmt):
            if self.relevant(n):
                return False
        return True

    # state: (sync pairs, defined names, last_ok (frozenset | None))
    # ``defined`` also carries the marker "<appended>" once the error list is non-empty
    def init_state(self):
        return (frozenset(), frozenset(p for p in self.f.all_params if p in self.D), None)

    def _uses(self, node):
        """Derived names read by this CFG node (report statements excluded)."""
        r = self._use_cache.get(node.id)
        if r is None:
            a = node.ast
            if node.kind == "for":
                scan = [a.iter]
            elif node.kind == "with":
                scan = [it.context_expr for it in a.items]
            elif node.kind == "stmt" and isinstance(a, ast.AugAssign):
                scan = [a.value, a.target]
            elif node.kind == "stmt" and isinstance(a, (ast.FunctionDef, ast.AsyncFunctionDef, ast.ClassDef)):
                scan = []
            else:
                scan = [a]
            r = set()
            for e in scan:
                for n in ast.walk(e):
                    if isinstance(n, ast.Name) and isinstance(n.ctx, ast.Load) and n.id in self.D:
                        r.add(n.id)
            # names only used inside a report are judged at the report, not here
            if node.kind == "stmt":
                rep = set()
                for c in ast.walk(a):
                    if isinstance(c, ast.Call):
                        fn = c.func
                        if (isinstance(fn, ast.Attribute) and isinstance(fn.value, ast.Name) and fn.value.id == self.errs and fn.attr == "append") or (self.cb and isinstance(fn, ast.Name) and fn.id == self.cb):
                            for x in ast.walk(c):
                                if isinstance(x, ast.Name):
                                    rep.add(x.id)
                r -= rep
            r = frozenset(r)
            self._use_cache[node.id] = r
        return r

    def row_of(self, e, sync) -> set:
        ns = names_in(e) if e is not None else set()
        out = set()
        for m in self.MC:
            if m in ns or any((y, m) in sync for y in ns if y in self.tracked):
                out.add(m)
        return out

    def transfer(self, node, st, ex):
        try:
            return self._transfer(node, st, ex)
        except _Prune:
            return None

    def _transfer(self, node, st, ex):
        a = node.ast
        if a is None:
            return st
        if node.kind == "stmt" and node.note == "opaque":
            return st
        sync, defined, last_ok = st
        if node.kind in ("stmt", "test", "for", "with", "return"):
            # reading a local that has no definition on this path raises: the path ends here
            for n in self._uses(node):
                if n not in defined:
                    return None
        if node.kind == "stmt":
            if isinstance(a, ast.Assign):
                return self._assign(a, a.targets, a.value, sync, defined, last_ok, node, ex)
            if isinstance(a, ast.AnnAssign) and a.value is not None:
                return self._assign(a, [a.target], a.value, sync, defined, last_ok, node, ex)
            if isinstance(a, ast.AugAssign):
                b = base_name(a.target)
                if b in self.MC:
                    keep = names_in(a.value) | {b}
                    sync = frozenset((x, m) for (x, m) in sync if m != b or x in keep or x == b)
                    if last_ok is not None:
                        last_ok = last_ok - {b}
                elif b in self.D:
                    if b not in defined:
                        pass
                    extra = self.row_of(a.value, sync)
                    # x op= E keeps what x was computed from
                return (sync, defined, last_ok)
            if isinstance(a, ast.Expr) and isinstance(a.value, ast.Call):
                return self._call_stmt(a.value, sync, defined, last_ok, node, ex)
            return st
        if node.kind == "for":
            tg = [b for b in (base_name(x) for x in flat_targets(a.target)) if b]
            row = self.row_of(a.iter, sync)
            for t in tg:
                if t in self.D:
                    sync = frozenset((x, m) for (x, m) in sync if x != t) | frozenset((t, m) for m in row)
                    defined = defined | {t}
            return (sync, defined, last_ok)
        if node.kind == "return":
            if last_ok is not None and set(last_ok) != set(self.M):
                stale = sorted(set(self.M) - set(last_ok))
                ex.report(("LAST-REPORT", src(a)), f"on this path the last reported error belongs to an earlier model state: `{'`, `'.join(stale)}` was written after the last report and before this return, so the last reported value is not the error of the returned decomposition", node, extra={"stale": stale})
            return st
        return st

    def _single_defs(self):
        """name -> [names its (only) defining expression mentions], for locals assigned exactly once by a plain
        assignment outside the tracked model variables"""
        if getattr(self, "_sd", None) is None:
            cnt, val = {}, {}
            for s in own_scope_nodes(self.f.node):
                if isinstance(s, ast.Assign):
                    for t in s.targets:
                        for x in flat_targets(t):
                            b = base_name(x)
                            if b:
                                cnt[b] = cnt.get(b, 0) + 1
                                if isinstance(x, ast.Name) and len(s.targets) == 1 and isinstance(t, ast.Name):
                                    val[b] = s.value
                                elif isinstance(x, ast.Name) and len(s.targets) == 1 and isinstance(t, (ast.Tuple, ast.List)) and isinstance(s.value, ast.Call):
                                    val[b] = s.value  # U, S, V = svd(E): each component is computed from E
                elif isinstance(s, (ast.AugAssign, ast.For)):
                    for x in flat_targets(s.target):
                        b = base_name(x)
                        if b:
                            cnt[b] = cnt.get(b, 0) + 2
            self._sd = {n: [set(names_in(v))] for n, v in val.items() if cnt.get(n) == 1 and n not in self.MC}
        return self._sd

    def _is_preserving(self, value) -> bool:
        return isinstance(value, ast.Call) and callee_name(value) in self.preserving

    def _assign(self, stmt, targets, value, sync, defined, last_ok, node, ex):
        # the callback call as value: a report
        if self.cb and isinstance(value, ast.Call) and isinstance(value.func, ast.Name) and value.func.id == self.cb:
            sync, defined, last_ok = self._report("callback", value, value.args[1] if len(value.args) > 1 else None, sync, defined, last_ok, node, ex)
        flat = []
        for t in targets:
            flat.append(flat_targets(t))
        old = sync
        for tl_ in flat:
            vals = None
            if len(tl_) > 1 and isinstance(value, (ast.Tuple, ast.List)) and len(value.elts) == len(tl_):
                vals = list(value.elts)
            bundle_models = [base_name(t) for t in tl_ if base_name(t) in self.MC]
            is_bundle = len(tl_) > 1 and vals is None
            new_pairs = set()
            kill_cols = {}
            reports = []
            for i, t in enumerate(tl_):
                b = base_name(t)
                e = vals[i] if vals is not None else value
                if b is None:
                    continue
                if b in self.MC:
                    if self._is_preserving(value) and not isinstance(t, ast.Subscript):
                        continue  # representation-preserving rewrite: same version
                    if isinstance(t, ast.Name) and isinstance(e, ast.Name) and e.id in self.MC:
                        # move of a candidate into the model: copy the column
                        c = e.id
                        kill_cols[b] = ("copy", c)
                    else:
                        keep = set(names_in(e))
                        # named temporaries: `new = f(sol); model[i] = g(new)` keeps `sol` in step with the model
                        # exactly as `model[i] = g(f(sol))` does
                        work = list(keep)
                        while work:
                            nm = work.pop()
                            for src_names in self._single_defs().get(nm, ()):
                                for x in src_names:
                                    if x not in keep:
                                        keep.add(x)
                                        work.append(x)
                        kill_cols[b] = ("clear", keep | set(x for x in (base_name(tt) for tt in tl_) if x))
                    # row of the model variable itself
                    r = self.row_of(e, old)
                    if isinstance(t, ast.Name):
                        new_pairs |= {("__row__", b, m) for m in r}
                elif b == self.errs and isinstance(t, ast.Subscript):
                    reports.append((t, e))
                elif b in self.D:
                    if isinstance(t, ast.Name):
                        r = self.row_of(e, old)
                        new_pairs |= {("__row__", b, m) for m in r}
                        defined = defined | {b}
                        if not r:
                            new_pairs.add(("__row__", b, None))
            # apply column kills / copies
            cur = set(sync)
            for m, (how, arg) in kill_cols.items():
                if how == "copy":
                    col = {x for (x, mm) in cur if mm == arg}
                    cur = {(x, mm) for (x, mm) in cur if mm != m} | {(x, m) for x in col} | {(arg, m), (m, m)}
                else:
                    cur = {(x, mm) for (x, mm) in cur if mm != m or x in arg}
                if last_ok is not None:
                    last_ok = last_ok - {m}
            # rows of (re)defined names
            redefined = {p[1] for p in new_pairs}
            cur = {(x, m) for (x, m) in cur if x not in redefined or x in self.MC and any(k == x for k in kill_cols if kill_cols[k][0] == "copy")}
            for p in new_pairs:
                if p[2] is not None:
                    cur.add((p[1], p[2]))
            # values assigned together from one call are mutually consistent
            if is_bundle:
                for t in tl_:
                    b = base_name(t)
                    if b in self.D or b in self.MC:
                        for m in bundle_models:
                            cur.add((b, m))
            sync = frozenset(cur)
            for t, e in reports:
                extra_sync = set(bundle_models) if is_bundle else set()
                sync, defined, last_ok = self._report("setlast", stmt, e, sync, defined, last_ok, node, ex, extra_sync=extra_sync)
        return (sync, defined, last_ok)

    def _call_stmt(self, call, sync, defined, last_ok, node, ex):
        fn = call.func
        if isinstance(fn, ast.Attribute) and isinstance(fn.value, ast.Name):
            if fn.value.id == self.errs and fn.attr == "append" and call.args:
                return self._report("append", call, call.args[0], sync, defined, last_ok, node, ex)
            if fn.value.id in self.MC and fn.attr in ("append", "insert", "pop", "remove", "extend", "clear"):
                m = fn.value.id
                keep = set()
                for a in call.args:
                    keep |= names_in(a)
                sync = frozenset((x, mm) for (x, mm) in sync if mm != m or x in keep)
                if last_ok is not None:
                    last_ok = last_ok - {m}
                return (sync, defined, last_ok)
        if self.cb and isinstance(fn, ast.Name) and fn.id == self.cb:
            return self._report("callback", call, call.args[1] if len(call.args) > 1 else None, sync, defined, last_ok, node, ex)
        return (sync, defined, last_ok)

    def _report(self, kind, site, e, sync, defined, last_ok, node, ex, extra_sync=()):
        self.reports_seen += 1
        if kind == "append":
            defined = defined | {"<appended>"}
        elif kind == "setlast" and "<appended>" not in defined:
            raise _Prune()  # errs[-1] = ... on an empty list raises IndexError
        if e is None:
            # protocol violation is CALLBACK-PROTOCOL's business; nothing is reported here
            return (sync, defined, last_ok)
        ns = names_in(e)
        undef = sorted(n for n in ns if n in self.D and n not in defined)
        if undef:
            ex.report(("FRESH-ERROR-undefined", src(site)), f"the reported value `{src(e)}` uses `{undef[0]}`, which has no definition on this path (the error was not computed under this option set)", node, extra={"undefined": undef})
        else:
            row = self.row_of(e, sync) | set(extra_sync)
            stale = sorted(m for m in self.M if m not in row)
            if stale:
                ex.report(("FRESH-ERROR-stale", src(site)), f"the reported value `{src(e)}` was computed before `{'`, `'.join(stale)}` was last written on this path: it is the error of an earlier iterate, not of the model it is reported for", node, extra={"stale": stale})
        return (sync, defined, frozenset(self.M))


def fresh_error(ctx: Ctx, qname: str):
    repo, res = ctx.repo, ctx.res
    f = driver(repo, qname)
    row = DRIVERS[qname]
    sites = report_sites(f, row)
    if not sites:
        raise AnalysisError(f"FRESH-ERROR: no report site left in {qname}")
    D = derived_names(f, row)
    rule = FreshRule(f, row, D)
    g = build_cfg(f.node, f.qname, opaque=rule.opaque)
    ex = Explorer(g, rule, max_states=1_500_000, track="corr").run()
    if ex.truncated:
        raise AnalysisError(f"FRESH-ERROR: path exploration of {qname} exceeded the state budget")
    res.instance("FRESH-ERROR", qname, sample={"model": row["model"], "report_sites": [f"{k}@{n.lineno}: {src(v) if v is not None else None}" for k, n, v in sites], "slice": sorted(D), "states": ex.states, "paths_to_exit": ex.paths_to_exit})
    for k, n, v in sites:
        res.instance("FRESH-ERROR", f"{qname}: {k}@{src(n)[:50]}")
    for v in ex.violations.values():
        rulename = "FRESH-ERROR"
        ctx.finding(rulename, f, v.node.ast if v.node is not None else f.node, v.message, construct=f"{v.key[0]}: {v.key[1]}", path=v.path, valuation={k: b for k, b in v.valuation.items()}, consts={k: repr(c) for k, c in v.consts.items()})
    return ex.states


# ---------------------------------------------------------------------------------
def callback_protocol(ctx: Ctx, qname: str):
    repo, res = ctx.repo, ctx.res
    row = DRIVERS[qname]
    cb = row.get("callback")
    if not cb:
        return
    f = driver(repo, qname)
    sites = [n for n in own_scope_nodes(f.node) if isinstance(n, ast.Call) and isinstance(n.func, ast.Name) and n.func.id == cb]
    if not sites:
        raise AnalysisError(f"CALLBACK-PROTOCOL: {qname} no longer calls `{cb}`")
    for c in sites:
        ok = len(c.args) == 2 and not c.keywords and not any(isinstance(a, ast.Starred) for a in c.args)
        res.instance("CALLBACK-PROTOCOL", f"{qname}: {src(c)[:70]}", sample={"line": c.lineno, "arity": len(c.args), "ok": ok})
        if not ok:
            ctx.finding("CALLBACK-PROTOCOL", f, c, f"callback is called with {len(c.args)} positional argument(s); every other call site passes (decomposition, error): a callback written against the documented protocol fails or sees no error here")


# ---------------------------------------------------------------------------------
def _norm_defs(f: FunctionInfo, row) -> Dict[str, list]:
    out = {}
    for s in own_scope_nodes(f.node):
        if isinstance(s, ast.Assign):
            for t in s.targets:
                fl = flat_targets(t)
                for i, e in enumerate(fl):
                    if isinstance(e, ast.Name) and e.id in row["norm"]:
                        out.setdefault(e.id, []).append((s, i, len(fl)))
    return out


def _is_data_norm(f, row, s: ast.Assign, idx, n) -> bool:
    v = s.value
    data = row["data"]
    if n == 1:
        # tl.norm(data, ...) or sqrt(sum(norm(slice)**2 ...))
        txt = src(v)
        if isinstance(v, ast.Call) and call_name(v) == "norm" and v.args and data in names_in(v.args[0]):
            return True
        if isinstance(v, ast.Call) and call_name(v) == "sqrt" and "norm(" in txt and data in names_in(v):
            return True
        return False
    # tuple assignment from error_calc(...): the third component is the (masked) data norm
    if isinstance(v, ast.Call) and call_name(v) == "error_calc" and idx == 2:
        return True
    if isinstance(v, (ast.Tuple,)) and len(v.elts) == n:
        e = v.elts[idx]
        if isinstance(e, ast.Name) and e.id in row["norm"]:
            return True
        # the result of error_calc kept whole and read by position: state = error_calc(...); ..., norm = state[1], state[2]
        if isinstance(e, ast.Subscript) and isinstance(e.slice, ast.Constant) and e.slice.value == 2 and isinstance(e.value, ast.Name):
            from .state import _resolve_at

            r = _resolve_at(e.value, s, f.node, depth=1)
            return isinstance(r, ast.Call) and call_name(r) == "error_calc"
    return False


def rel_unit(ctx: Ctx, qname: str):
    repo, res = ctx.repo, ctx.res
    row = DRIVERS[qname]
    from ..inline import with_inlined

    f = with_inlined(repo, driver(repo, qname), kinds=("nested",))  # the error formula may sit in a local closure
    if row.get("rel_unit_exception"):
        res.instance("REL-UNIT", f"{qname}: exception ({row['rel_unit_exception']})", nontrivial=False)
        return
    norms = _norm_defs(f, row)
    for nm in row["norm"]:
        if nm not in norms and nm in f.local_names():
            continue
    for nm, defs in norms.items():
        for s, idx, n in defs:
            ok = _is_data_norm(f, row, s, idx, n)
            res.instance("REL-UNIT", f"{qname}: norm `{nm}` = {src(s.value)[:50]}", sample={"ok": ok})
            if not ok:
                ctx.finding("REL-UNIT", f, s, f"`{nm}` is the denominator of the reported relative error but is not defined as the norm of the data `{row['data']}`")
    reported = set()
    for kind, node, val in report_sites(f, row):
        if isinstance(val, ast.Name):
            reported.add(val.id)
        elif val is not None and not isinstance(val, ast.Call):
            # an expression reported directly must itself be a quotient by the norm
            ok = isinstance(val, ast.BinOp) and isinstance(val.op, ast.Div) and isinstance(val.right, ast.Name) and val.right.id in row["norm"]
            res.instance("REL-UNIT", f"{qname}: reported expression {src(val)[:50]}")
            if not ok:
                ctx.finding("REL-UNIT", f, node, f"the reported value `{src(val)}` is not a quotient by the data norm")
    bundle = set(row.get("bundle_calls", []))
    for name in sorted(reported):
        defs = []
        for s in own_scope_nodes(f.node):
            if isinstance(s, ast.Assign):
                for t in s.targets:
                    fl = flat_targets(t)
                    for i, e in enumerate(fl):
                        if isinstance(e, ast.Name) and e.id == name:
                            defs.append(("assign", s, i, len(fl)))
            elif isinstance(s, ast.AugAssign) and isinstance(s.target, ast.Name) and s.target.id == name:
                defs.append(("aug", s, 0, 1))
        if not defs:
            raise AnalysisError(f"REL-UNIT: reported name `{name}` has no definition in {qname}")
        has_div = False
        for kind, s, i, n in defs:
            if kind == "aug":
                ok = isinstance(s.op, ast.Div) and isinstance(s.value, ast.Name) and s.value.id in row["norm"]
                has_div = has_div or ok
                continue
            v = s.value
            if n > 1 and isinstance(v, ast.Tuple) and len(v.elts) == n:
                v = v.elts[i]
            if isinstance(v, ast.BinOp) and isinstance(v.op, ast.Div) and isinstance(v.right, ast.Name) and v.right.id in row["norm"]:
                has_div = True
        raw = [d for d in defs if d[0] == "assign" and not (isinstance(d[1].value, ast.BinOp) and isinstance(d[1].value.op, ast.Div))]
        # every plain definition must be followed by the normalising /= (same block) or be a quotient
        bad = []
        for kind, s, i, n in defs:
            if kind != "assign":
                continue
            v = s.value
            if n > 1 and isinstance(v, ast.Tuple) and len(v.elts) == n:
                v = v.elts[i]
            if isinstance(v, ast.BinOp) and isinstance(v.op, ast.Div) and isinstance(v.right, ast.Name) and v.right.id in row["norm"]:
                continue
            if isinstance(v, ast.Call) and callee_name(v) in bundle:
                continue  # line_step normalises inside (checked in its own function)
            nxt = _next_stmt(f, s)
            if isinstance(nxt, ast.AugAssign) and isinstance(nxt.target, ast.Name) and nxt.target.id == name and isinstance(nxt.op, ast.Div) and isinstance(nxt.value, ast.Name) and nxt.value.id in row["norm"]:
                continue
            bad.append(s)
        res.instance("REL-UNIT", f"{qname}: reported `{name}`", sample={"definitions": [src(d[1])[:70] for d in defs], "ok": not bad})
        for s in bad:
            ctx.finding("REL-UNIT", f, s, f"`{name}` is reported as the relative reconstruction error but this definition is not divided by the data norm ({', '.join(row['norm'])}): an absolute error is reported")


def _next_stmt(f, stmt):
    for n in ast.walk(f.node):
        for fld in ("body", "orelse", "finalbody"):
            blk = getattr(n, fld, None)
            if isinstance(blk, list):
                for i, s in enumerate(blk):
                    if s is stmt:
                        return blk[i + 1] if i + 1 < len(blk) else None
    return None


# ---------------------------------------------------------------------------------
def _contains_sub(e) -> bool:
    """a top-level arithmetic difference inside ``e`` (not inside a call argument)"""
    if isinstance(e, ast.BinOp):
        if isinstance(e.op, ast.Sub):
            return True
        return _contains_sub(e.left) or _contains_sub(e.right)
    if isinstance(e, ast.UnaryOp):
        return _contains_sub(e.operand)
    return False


def sqrt_guard(ctx: Ctx, funcs: List[FunctionInfo]):
    res = ctx.res
    for f in funcs:
        for c in own_scope_nodes(f.node):
            if isinstance(c, ast.Call) and call_name(c) == "sqrt" and c.args:
                a = c.args[0]
                guarded = isinstance(a, ast.Call) and call_name(a) in ("abs", "maximum", "clip")
                risky = _contains_sub(a)
                res.instance("SQRT-GUARD", f"{f.qname}: {src(c)[:70]}", nontrivial=risky or guarded, sample={"line": c.lineno, "radicand_has_difference": risky, "guarded": guarded})
                if risky and not guarded:
                    ctx.finding("SQRT-GUARD", f, c, "square root of an unguarded difference: for a (near-)exact fit rounding makes the radicand slightly negative and the reported error is NaN (siblings wrap the radicand in abs)")


def last_mode(ctx: Ctx):
    repo, res = ctx.repo, ctx.res
    for qname, row in DRIVERS.items():
        if "fixed" not in row or "sweep" not in row:
            continue
        f = driver(repo, qname)
        # does the driver pair the MTTKRP of the last swept mode with factors[-1]?
        uses = []
        for n in own_scope_nodes(f.node):
            if isinstance(n, ast.BinOp) and isinstance(n.op, ast.Mult):
                txt = src(n)
                if "mttkrp" in names_in(n) and "factors[-1]" in txt.replace(" ", ""):
                    uses.append(n)
            if isinstance(n, ast.Call) and call_name(n) == "error_calc":
                if any(k.arg == "mttkrp" for k in n.keywords) or (len(n.args) >= 7 and is_name(n.args[6], "mttkrp")):
                    uses.append(n)
        if not uses:
            continue
        fixed = row["fixed"]
        # a guard `<last axis> in fixed_modes` that re-binds / shrinks fixed_modes before the sweep list;
        # <last axis> is ndim - 1 written inline or through locals (n_modes = tl.ndim(tensor); last = n_modes - 1)
        defs = {}
        for s in own_scope_nodes(f.node):
            if isinstance(s, ast.Assign) and len(s.targets) == 1 and isinstance(s.targets[0], ast.Name):
                defs.setdefault(s.targets[0].id, []).append(s.value)

        def is_ndim(e, d=0):
            if d > 4:
                return False
            if isinstance(e, ast.Call) and call_name(e) == "ndim":
                return True
            if isinstance(e, ast.Attribute) and e.attr == "ndim":
                return True
            if isinstance(e, ast.Call) and call_name(e) == "len" and e.args and ((isinstance(e.args[0], ast.Call) and call_name(e.args[0]) == "shape") or (isinstance(e.args[0], ast.Attribute) and e.args[0].attr == "shape") or (isinstance(e.args[0], ast.Name) and len(defs.get(e.args[0].id, [])) == 1 and ((isinstance(defs[e.args[0].id][0], ast.Call) and call_name(defs[e.args[0].id][0]) == "shape") or (isinstance(defs[e.args[0].id][0], ast.Attribute) and defs[e.args[0].id][0].attr == "shape")))):
                return True
            if isinstance(e, ast.Name) and len(defs.get(e.id, [])) == 1:
                return is_ndim(defs[e.id][0], d + 1)
            return False

        def is_last_axis(e, d=0):
            if d > 4:
                return False
            if isinstance(e, ast.BinOp) and isinstance(e.op, ast.Sub) and isinstance(e.right, ast.Constant) and e.right.value == 1:
                return is_ndim(e.left)
            if isinstance(e, ast.Name) and len(defs.get(e.id, [])) == 1:
                return is_last_axis(defs[e.id][0], d + 1)
            return False

        from .drivers import fixed_aliases

        aliases = fixed_aliases(f, fixed)
        ok = False
        for s in own_scope_nodes(f.node):
            if isinstance(s, ast.If):
                t = s.test
                if isinstance(t, ast.Compare) and len(t.ops) == 1 and isinstance(t.ops[0], ast.In) and isinstance(t.comparators[0], ast.Name) and t.comparators[0].id in aliases and is_last_axis(t.left):
                    for b in ast.walk(s):
                        if isinstance(b, ast.Assign) and any(isinstance(tt, ast.Name) and tt.id in aliases for tt in b.targets):
                            ok = True
                        if isinstance(b, ast.Call) and isinstance(b.func, ast.Attribute) and b.func.attr in ("remove", "discard", "pop") and isinstance(b.func.value, ast.Name) and b.func.value.id in aliases:
                            ok = True
        # ... and nothing puts the last mode back afterwards: after the guard the fixed list is only ever copied or
        # filtered, not re-computed element by element (`[m % ndim for m in fixed]` maps -1 onto the last mode again)
        guard = None
        for s in own_scope_nodes(f.node):
            if isinstance(s, ast.If) and isinstance(s.test, ast.Compare) and len(s.test.ops) == 1 and isinstance(s.test.ops[0], ast.In) and isinstance(s.test.comparators[0], ast.Name) and s.test.comparators[0].id in aliases and is_last_axis(s.test.left):
                guard = s
        recomputed = None
        if guard is not None:
            for s in own_scope_nodes(f.node):
                if isinstance(s, ast.Assign) and getattr(s, "lineno", 0) > getattr(guard, "end_lineno", guard.lineno) and any(isinstance(tt, ast.Name) and tt.id in aliases for tt in s.targets):
                    v = s.value
                    pure = False
                    if isinstance(v, ast.Name) and v.id in aliases:
                        pure = True
                    elif isinstance(v, ast.Call) and isinstance(v.func, ast.Name) and v.func.id in ("list", "tuple", "sorted", "set") and len(v.args) == 1 and isinstance(v.args[0], ast.Name) and v.args[0].id in aliases:
                        pure = True
                    elif isinstance(v, (ast.ListComp, ast.GeneratorExp)) and len(v.generators) == 1 and isinstance(v.elt, ast.Name) and isinstance(v.generators[0].target, ast.Name) and v.elt.id == v.generators[0].target.id:
                        pure = True  # a filter keeps a subset
                    if not pure:
                        recomputed = s
        res.instance("LAST-MODE", qname, sample={"mttkrp_shortcut": [src(u)[:70] for u in uses], "unfixes_last_mode": ok, "fixed_list_recomputed_after_guard": src(recomputed)[:60] if recomputed is not None else None})
        if ok and recomputed is not None:
            ctx.finding("LAST-MODE", f, recomputed, f"`{src(recomputed)[:80]}` re-computes the fixed-mode list after the guard that un-fixes the last mode: values the guard did not recognise as the last mode (a negative index) are mapped onto it again, the last mode drops out of the sweep, and the MTTKRP of another mode is paired with factors[-1] in the error computation -- the reported error is then wrong (or the shapes do not match)", construct=f"{f.name}: fixed list recomputed after the last-mode guard")
        if not ok:
            ctx.finding("LAST-MODE", f, uses[0], f"the inner product <tensor, model> is taken from the MTTKRP of the last *swept* mode paired with factors[-1], but nothing keeps the last mode in the sweep when `{fixed}` contains it (the siblings warn and un-fix it): with the last mode fixed the reported error is wrong or the shapes do not match", construct=f"{src(uses[0])[:90]} without un-fixing the last mode")


# ---------------------------------------------------------------------------------
def run(ctx: Ctx):
    repo, res = ctx.repo, ctx.res
    res.rule("FRESH-ERROR", "on every branch-consistent path each reported error (list append/store, callback argument) is defined and was computed from the current versions of all model variables, and the last report before a return matches the returned model", floor=12)
    res.rule("CALLBACK-PROTOCOL", "all call sites of a driver's callback pass (decomposition, error)", floor=4)
    res.rule("REL-UNIT", "every reported value is defined as a quotient by the norm of the data (CMTF: documented exception)", floor=12)
    res.rule("SQRT-GUARD", "inside the error computations a sqrt whose radicand contains a difference is wrapped in abs", floor=5)
    res.rule("LAST-MODE", "a driver that pairs the last MTTKRP with factors[-1] un-fixes the last mode", floor=3)
    res.assume(
        "a call result counts as computed from the variables passed to it (taken at face value)",
        "representation-preserving rewrites (cp_normalize / tucker_normalize of the whole model) do not start a new version",
        "NOT decided: the algebra of each error shortcut, TR-ALS's residual identity, PARAFAC2's carry-over of the previous error on a failed line search",
    )
    states = 0
    for qname in DRIVERS:
        states += ctx.guarded(fresh_error, ctx, qname) or 0
        ctx.guarded(callback_protocol, ctx, qname)
        ctx.guarded(rel_unit, ctx, qname)
    funcs = [repo.func(q) for q in DRIVERS] + [repo.func(q) for q in SQRT_SCOPE_EXTRA]
    ctx.guarded(sqrt_guard, ctx, funcs)
    ctx.guarded(last_mode, ctx)
    res.rule("MASK-FORWARD", "a driver that takes a `mask` hands it to the routine that computes its reported error (error_calc): every such call binds the callee's `mask` to (something computed from) the driver's own mask, never to a constant or the default -- with missing values the norm shortcut of the error is not valid and the full masked residual has to be taken", floor=4)
    ctx.guarded(mask_forward, ctx)
    res.rule("REPORT-PURE", "the reported error is a function of the data, the mask and the current model only: it has no data dependence on a penalty option of the driver (sparsity / ridge / regularisation coefficients) other than through the model itself. A report that adds the penalty term is the value of the penalised objective, not the reconstruction error of the returned decomposition", floor=10)
    for qname in DRIVERS:
        ctx.guarded(report_pure, ctx, qname)
    res.rule("SHORTCUT-PREMISE", "HOOI reports sqrt(|norm(X)^2 - norm(core)^2|), which is the residual only for orthonormal factors: every pass of the sweep over the modes stores singular vectors into the factor of its mode -- the store is reached on every path through the loop body (no `continue` / conditional skip before it), so that a user-supplied, non-orthonormal start is orthonormalised before the first report", floor=1)
    ctx.guarded(shortcut_premise, ctx)
    res.rule("ELEMENT-VS-POSITION", "in every driver the loop variable of a sweep over a *filtered* list of mode numbers is only compared with elements of that list (or with mode numbers), never with a position in / the length of the list", floor=1)
    ctx.guarded(element_vs_position, ctx)
    res.stats["drivers"] = list(DRIVERS)
    res.stats["states_explored"] = states


# ---------------------------------------------------------------------------------
# ELEMENT-VS-POSITION: a mode number is not a position in the list of swept modes
# ---------------------------------------------------------------------------------
def element_vs_position(ctx: Ctx):
    """In every driver: for a loop `for m in L` over a list L that is a *filtered* sequence of
    mode numbers (`[m for m in range(n) if m not in fixed]`), m is an element of L, not an index
    into it.  Comparing m with `len(L) - 1` (or a name bound to it) confuses the two: they
    coincide only when nothing was filtered out.  The deferred-normalisation / MTTKRP-reuse
    guards (`mode != modes[-1]`) must compare elements with elements."""
    repo, res = ctx.repo, ctx.res
    n = 0
    for q in DRIVERS:
        f = repo.func(q)
        nodes = list(own_scope_nodes(f.node))
        filtered = {}
        for s in nodes:
            if isinstance(s, ast.Assign) and len(s.targets) == 1 and isinstance(s.targets[0], ast.Name) and isinstance(s.value, ast.ListComp) and len(s.value.generators) == 1 and s.value.generators[0].ifs:
                g = s.value.generators[0]
                if isinstance(g.iter, ast.Call) and isinstance(g.iter.func, ast.Name) and g.iter.func.id == "range":
                    filtered[s.targets[0].id] = s
        if not filtered:
            continue
        # names bound to a position / length of a filtered list
        pos_names = {}
        for s in nodes:
            if isinstance(s, ast.Assign) and len(s.targets) == 1 and isinstance(s.targets[0], ast.Name):
                for c in ast.walk(s.value):
                    if isinstance(c, ast.Call) and isinstance(c.func, ast.Name) and c.func.id == "len" and c.args and isinstance(c.args[0], ast.Name) and c.args[0].id in filtered:
                        pos_names[s.targets[0].id] = c.args[0].id

        def position_of(e):
            for c in ast.walk(e):
                if isinstance(c, ast.Call) and isinstance(c.func, ast.Name) and c.func.id == "len" and c.args and isinstance(c.args[0], ast.Name) and c.args[0].id in filtered:
                    return c.args[0].id
                if isinstance(c, ast.Name) and c.id in pos_names:
                    return pos_names[c.id]
            return None

        for loop in nodes:
            if not (isinstance(loop, ast.For) and isinstance(loop.target, ast.Name) and isinstance(loop.iter, ast.Name) and loop.iter.id in filtered):
                continue
            m, L = loop.target.id, loop.iter.id
            for c in ast.walk(loop):
                if isinstance(c, ast.Compare) and len(c.ops) == 1 and isinstance(c.ops[0], (ast.Eq, ast.NotEq, ast.Lt, ast.LtE, ast.Gt, ast.GtE)):
                    l, r = c.left, c.comparators[0]
                    for a, b in ((l, r), (r, l)):
                        if is_name(a, m):
                            n += 1
                            pl = position_of(b)
                            ok = pl is None
                            res.instance("ELEMENT-VS-POSITION", f"{f.qname}: {src(c)[:60]}", sample={"line": c.lineno, "element_of": L, "compared_with_position_in": pl, "ok": ok})
                            if not ok:
                                ctx.finding("ELEMENT-VS-POSITION", f, c, f"`{src(c)[:80]}` compares `{m}`, an ELEMENT of the filtered mode list `{L}` (a mode number), with a POSITION / length of `{pl}`: the two coincide only when no mode was filtered out (e.g. no fixed modes). The guard then fires for the wrong mode, e.g. normalising before the error shortcut that reuses the last MTTKRP", construct=f"{f.name}: {src(c)[:60]} element vs position")
    if n == 0:
        raise AnalysisError("ELEMENT-VS-POSITION: no comparison on the loop variable of a filtered mode list was found in any driver; the rule's anchors vanished")


# ---------------------------------------------------------------------------------
# MASK-FORWARD: the error routine sees the mask the driver was given
# ---------------------------------------------------------------------------------
ERROR_ROUTINES = {"error_calc"}


def mask_forward(ctx: Ctx):
    from ..common import inline_locals
    from ..model import bind_call

    repo, res = ctx.repo, ctx.res
    n = 0
    for f in sorted(repo.functions.values(), key=lambda x: x.qname):
        if "mask" not in f.all_params or not f.module.name.startswith("tensorly.decomposition"):
            continue
        for c in own_scope_nodes(f.node):
            if not isinstance(c, ast.Call):
                continue
            ct = repo.resolve_call(f, f.module, c)
            if ct.kind != "repo" or not any(g.name in ERROR_ROUTINES and "mask" in g.all_params for g in ct.funcs):
                continue
            g = ct.funcs[0]
            b = bind_call(c, g, ct.bound)
            a = b.params.get("mask")
            n += 1
            full = inline_locals(f.node, a) if a is not None else None
            ok = full is not None and any(isinstance(x, ast.Name) and x.id == "mask" for x in ast.walk(full))
            res.instance("MASK-FORWARD", f"{f.qname} -> {g.name}", sample={"line": c.lineno, "mask_argument": src(a) if a is not None else "<default>", "ok": ok})
            if not ok:
                ctx.finding("MASK-FORWARD", f, c, f"{f.name} takes a `mask` but calls {g.name} with mask={src(a) if a is not None else '<default None>'}: the reported error is then computed as if no entry were missing (norm shortcut on imputed data), so it is not the error of the returned decomposition on the observed entries", construct=f"{f.name} -> {g.name}: mask={src(a) if a is not None else '<default>'}")
    if n == 0:
        raise AnalysisError("MASK-FORWARD: no driver with a `mask` parameter calls an error routine any more; cannot decide")


# ---------------------------------------------------------------------------------
# REPORT-PURE: the reported error does not read the penalty options
# ---------------------------------------------------------------------------------
import re as _re

_PENALTY = _re.compile(r"sparsity|sparse|ridge|penal|regulari|(^|_)reg(_|$)|lambda|l1_|l2_|(^|_)coef")
# documented: robust CP reports the residual after removing its sparse component
_REPORT_MAY_READ = {"tensorly.decomposition._cp.parafac": {"sparsity"}}


def report_pure(ctx: Ctx, qname: str):
    repo, res = ctx.repo, ctx.res
    row = DRIVERS[qname]
    f = driver(repo, qname)
    sites = report_sites(f, row)
    if not sites:
        return
    penalties = {p for p in f.all_params if _PENALTY.search(p)} - _REPORT_MAY_READ.get(qname, set())
    stop = set(row["model"]) | {row["data"]} | set(row.get("norm", []))
    # flow-insensitive definitions: name -> names its definitions read
    defs = {}
    for st in own_scope_nodes(f.node):
        tg = val = None
        if isinstance(st, ast.Assign):
            tg, val = st.targets, st.value
        elif isinstance(st, ast.AugAssign):
            tg, val = [st.target], st.value
        elif isinstance(st, (ast.For, ast.comprehension)):
            tg, val = [st.target], st.iter
        if tg is None:
            continue
        reads = names_in(val)
        for t in tg:
            for x in flat_targets(t):
                b = base_name(x)
                if b:
                    defs.setdefault(b, set()).update(reads)
                    if isinstance(x, ast.Subscript):
                        defs[b].update(names_in(x.slice))
    for kind, node, val in sites:
        if val is None:
            continue
        seen, work = set(), list(names_in(val))
        via = {}
        while work:
            nm = work.pop()
            if nm in seen or nm in stop:
                continue
            seen.add(nm)
            for r in defs.get(nm, ()):
                if r not in seen:
                    via.setdefault(r, nm)
                    work.append(r)
        hit = sorted(seen & penalties)
        res.instance("REPORT-PURE", f"{qname}: {kind}@{src(node)[:40]}", sample={"penalty_options": sorted(penalties), "read_by_report": hit, "ok": not hit})
        for p_ in hit:
            chain = [p_]
            while chain[-1] in via and len(chain) < 8:
                chain.append(via[chain[-1]])
            ctx.finding("REPORT-PURE", f, node, f"the value reported by `{src(node)[:60]}` depends on the penalty option `{p_}` directly (through {' -> '.join(chain)}), not only through the model ({', '.join(row['model'])}): what is reported is the penalised objective, not the relative reconstruction error of the iterate, so the last reported value is not the error of the returned decomposition whenever `{p_}` is set", construct=f"{f.name}: reported error reads {p_}")


# ---------------------------------------------------------------------------------
# SHORTCUT-PREMISE: HOOI's norm shortcut needs every factor to come out of an SVD
# ---------------------------------------------------------------------------------
def shortcut_premise(ctx: Ctx):
    from ..inline import with_inlined

    repo, res = ctx.repo, ctx.res
    qname = "tensorly.decomposition._tucker.partial_tucker"
    f = with_inlined(repo, repo.func(qname))  # the sweep may live in a private helper
    row = DRIVERS[qname]
    fs = next((m for m in row["model"] if "factor" in m), None)
    if fs is None:
        raise AnalysisError("SHORTCUT-PREMISE: the driver table has no factor list for partial_tucker")
    # the shortcut is in use: a report computed from norm ** 2 - norm(core) ** 2
    shortcut = [n for n in own_scope_nodes(f.node) if isinstance(n, ast.BinOp) and isinstance(n.op, ast.Sub) and "norm" in src(n) and "**" in src(n)]
    if not shortcut:
        res.instance("SHORTCUT-PREMISE", f"{qname}: the error is no longer computed by the norm shortcut", nontrivial=False)
        return
    loops = []
    for lp in own_scope_nodes(f.node):
        if isinstance(lp, ast.For) and any(isinstance(x, ast.Assign) and any(isinstance(t, ast.Subscript) and is_name_(t.value, fs) for t in x.targets) for x in ast.walk(lp)):
            # innermost loops only
            if not any(isinstance(y, ast.For) and y is not lp and any(isinstance(x, ast.Assign) and any(isinstance(t, ast.Subscript) and is_name_(t.value, fs) for t in x.targets) for x in ast.walk(y)) for y in ast.walk(lp)):
                loops.append(lp)
    if not loops:
        raise AnalysisError(f"SHORTCUT-PREMISE: no sweep of {qname} stores into `{fs}` any more; cannot decide")

    def always_stores(block):
        """every path through the block reaches a store into fs[...] before it can leave the pass"""
        for st in block:
            if isinstance(st, ast.Assign) and any(isinstance(t, ast.Subscript) and is_name_(t.value, fs) for t in st.targets):
                return True, None
            if isinstance(st, ast.If):
                a, wa = always_stores(st.body)
                b, wb = always_stores(st.orelse) if st.orelse else (False, None)
                if a and b:
                    return True, None
                # a branch that does not store must not leave the pass either
                for blk in (st.body, st.orelse):
                    for x in blk:
                        for y in ast.walk(x):
                            if isinstance(y, (ast.Continue, ast.Break, ast.Return)):
                                return False, y
                continue
            for y in ast.walk(st):
                if isinstance(y, (ast.Continue, ast.Break, ast.Return)) and not isinstance(st, (ast.For, ast.While)):
                    return False, y
        return False, None

    for lp in loops:
        ok, where = always_stores(lp.body)
        res.instance("SHORTCUT-PREMISE", f"{qname}: sweep `for {src(lp.target)} in {src(lp.iter)[:30]}`", sample={"every_pass_stores_singular_vectors": ok})
        if not ok:
            ctx.finding("SHORTCUT-PREMISE", f, where if where is not None else lp, f"a pass of the sweep `for {src(lp.target)} in {src(lp.iter)[:40]}` can end without storing singular vectors into `{fs}` ({'`' + src(where)[:30] + '` at line ' + str(where.lineno) if where is not None else 'the store is conditional'}): a factor that was supplied by the caller (not orthonormal) then stays as it is, and the reported error sqrt(|norm(X)^2 - norm(core)^2|) is not the residual of the returned decomposition", construct=f"partial_tucker: a sweep pass may skip the factor update")


def is_name_(e, name):
    return isinstance(e, ast.Name) and e.id == name
