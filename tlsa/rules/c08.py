"""C08 — structure and canonical form of outputs (partial: structural clauses).

NORMALISE-ON-EXIT   with normalisation requested, every path from a sweep write to a return
                    passes the normalising call (convergence break included)
RETURNS-VALIDATED   every decomposition returns through its validating wrapper constructor
CORE-IN-SYNC        HOOI's returned core is the projection computed after the last factor write
"""

from __future__ import annotations

import ast

from ..absint import Const, Dct, Domain, Interp, Leaf, Lst, Obj, Sym, Tup
from ..cfg import build_cfg, make_opaque, names_in
from ..common import Ctx, call_name, is_name, src
from ..explore import Explorer
from ..model import AnalysisError, own_scope_nodes
from .c06 import FreshRule, derived_names
from .drivers import DRIVERS, base_name, callee_name, driver, flat_targets

D = "tensorly.decomposition."

NORMALISING = dict(DRIVERS)

RETURNS = {
    D + "_cp.parafac": "CPTensor",
    D + "_cp.randomised_parafac": "CPTensor",
    D + "_nn_cp.non_negative_parafac": "CPTensor",
    D + "_nn_cp.non_negative_parafac_hals": "CPTensor",
    D + "_constrained_cp.constrained_parafac": "CPTensor",
    D + "_tucker.tucker": "TuckerTensor",
    D + "_tucker.non_negative_tucker": "TuckerTensor",
    D + "_tucker.non_negative_tucker_hals": "TuckerTensor",
    D + "_parafac2.parafac2": "Parafac2Tensor",
    D + "_tt.tensor_train": "TTTensor",
    D + "_tt.tensor_train_matrix": "TTMatrix",
    D + "_tr_svd.tensor_ring": "TRTensor",
    D + "_tr_als.tensor_ring_als": "TRTensor",
    D + "_tr_als.tensor_ring_als_sampled": "TRTensor",
    D + "_cmtf_als.coupled_matrix_tensor_3d_factorization": "CPTensor",
}


class NormRule:
    """state: 'none' (no sweep write yet) | 'dirty' | 'clean'"""

    def __init__(self, f, row):
        self.f, self.row = f, row
        self.M = set(row["model"])
        self.flag, self.call = row["normalize"]
        # the zero-sweep clause speaks about returns *after* the sweep loop; a return before it is a documented
        # shortcut (all modes fixed: the initialisation is the answer and must stay as given, C14)
        loops = [x.lineno for x in f.node.body if isinstance(x, (ast.For, ast.While))]
        self.zero_trip = min(loops) if loops else None

    def relevant(self, n):
        if isinstance(n, (ast.Name, ast.Subscript, ast.Attribute)) and isinstance(getattr(n, "ctx", None), ast.Store):
            return base_name(n) in self.M
        if isinstance(n, (ast.Return, ast.Break, ast.Continue)):
            return True
        if isinstance(n, ast.Call) and isinstance(n.func, ast.Attribute) and isinstance(n.func.value, ast.Name) and n.func.value.id in self.M and n.func.attr in ("append", "insert", "pop", "remove", "extend"):
            return True
        if isinstance(n, ast.Call) and callee_name(n) == self.call:
            return True  # the normalised model may be given a name of its own
        return False

    def opaque(self, stmt):
        return not any(self.relevant(n) for n in ast.walk(stmt))

    def init_state(self):
        return ("none", frozenset())

    def transfer(self, node, state, ex):
        st, named = state  # named: model name -> local that holds its normalised form, as (model, local) pairs
        a = node.ast
        if a is None or (node.kind == "stmt" and node.note == "opaque"):
            return state
        if node.kind == "stmt" and isinstance(a, (ast.Assign, ast.AugAssign, ast.AnnAssign)):
            tgts = a.targets if isinstance(a, ast.Assign) else [a.target]
            bases = [base_name(x) for t in tgts for x in flat_targets(t)]
            v = a.value
            if any(b in self.M for b in bases):
                named = frozenset((m, l) for m, l in named if m not in bases)
                if isinstance(v, ast.Call) and callee_name(v) == self.call and all((b in self.M) for b in bases if b):
                    return ("clean", named)
                if node.loop is not None:
                    return ("dirty", named)
                return (st, named)
            # other = normalise(model): the normalised model under a name of its own
            if isinstance(a, ast.Assign) and len(tgts) == 1 and isinstance(tgts[0], ast.Name) and isinstance(v, ast.Call) and callee_name(v) == self.call and len(v.args) == 1 and isinstance(v.args[0], ast.Name) and v.args[0].id in self.M:
                return (st, named | {(v.args[0].id, tgts[0].id)})
            if any(b in {l for _, l in named} for b in bases):
                named = frozenset((m, l) for m, l in named if l not in bases)
                return (st, named)
        if node.kind == "return" and st == "dirty":
            # every model component handed back is its normalised form
            covered = {m for m, _ in named}
            locals_ = {l for _, l in named}
            reads = names_in(a.value) if a.value is not None else set()
            object_models = {m for m in self.M if m in covered}
            if reads & self.M - covered or not (reads & locals_) or not object_models:
                ex.report(("NORMALISE-ON-EXIT", src(a)), f"with {self.flag}=True this return is reached after a sweep write to the model without passing `{self.call}`: the factors are returned un-normalised (scale not moved to the weights/core)", node)
        if node.kind == "return" and st == "none" and self.zero_trip is not None and getattr(a, "lineno", 0) > self.zero_trip:
            locals_ = {l for _, l in named}
            reads = names_in(a.value) if a.value is not None else set()
            if not (reads & locals_):
                ex.report(("NORMALISE-ON-EXIT", "zero sweeps: " + src(a)), f"with {self.flag}=True this return is reached on a path that never passes `{self.call}` (no sweep is run: n_iter_max=0, or the loop is left before its first write): a user-supplied initialisation is handed back as it was given, un-normalised", node)
        return (st, named)


def normalise_on_exit(ctx: Ctx):
    repo, res = ctx.repo, ctx.res
    for qname, row in DRIVERS.items():
        if "normalize" not in row:
            continue
        f = driver(repo, qname)
        flag = row["normalize"][0]
        if flag not in f.all_params:
            raise AnalysisError(f"NORMALISE-ON-EXIT: {qname} lost its `{flag}` option")
        rule = NormRule(f, row)
        g = build_cfg(f.node, f.qname, opaque=rule.opaque)
        ex = Explorer(g, rule, {flag: True}, track="corr").run()
        if ex.truncated:
            raise AnalysisError(f"NORMALISE-ON-EXIT: state budget exceeded in {qname}")
        rets = [n for n in own_scope_nodes(f.node) if isinstance(n, ast.Return)]
        res.instance("NORMALISE-ON-EXIT", qname, sample={"returns": len(rets), "states": ex.states, "paths_to_exit": ex.paths_to_exit})
        for r in rets:
            res.instance("NORMALISE-ON-EXIT", f"{qname}: {src(r)[:50]}")
        for v in ex.violations.values():
            ctx.finding("NORMALISE-ON-EXIT", f, v.node.ast, v.message, construct=v.key[1], path=v.path)


# ---------------------------------------------------------------------------------
class Shape(Domain):
    """Trivial domain: only the generic structure (wrapper objects, tuples) matters."""

    name = "shape"

    def bottom(self):
        return 0

    def join_d(self, a, b):
        return 0

    def __init__(self):
        self.returns = {}

    def join_values(self, a, b, it):
        # the decomposition component is what matters: (cp, sparse) joined with cp is still cp
        ca, cb = _first_component(a), _first_component(b)
        if isinstance(ca, Obj) and isinstance(cb, Obj) and ca.cls == cb.cls and (isinstance(a, Tup) != isinstance(b, Tup)):
            return ca if isinstance(a, Tup) else cb
        return None

    def on_return(self, f, value, node, it):
        k = (f.qname, id(node))
        old = self.returns.get(k)
        self.returns[k] = (node, value if old is None else it.join(old[1], value))


def _first_component(v):
    while isinstance(v, Tup) and v.elts:
        v = v.elts[0]
    return v


def returns_validated(ctx: Ctx):
    repo, res = ctx.repo, ctx.res
    dom = Shape()
    it = Interp(repo, dom)
    for qname, cls in RETURNS.items():
        f = repo.func(qname)
        if cls is None:
            continue
        args = {p: Sym(0) for p in f.all_params}
        if f.kwarg:
            args[f.kwarg] = Dct(None, Sym(0))
        it.call_function(f, args)
        rets = [n for n in own_scope_nodes(f.node) if isinstance(n, ast.Return)]
        seen = 0
        for rnode in rets:
            rec = dom.returns.get((f.qname, id(rnode)))
            if rec is None:
                continue  # unreachable under every specialisation
            seen += 1
            comp = _first_component(rec[1])
            ok = isinstance(comp, Obj) and comp.cls.rsplit(".", 1)[-1] == cls
            res.instance("RETURNS-VALIDATED", f"{qname}: {src(rnode)[:60]}", sample={"expected": cls, "returned": (comp.cls if isinstance(comp, Obj) else type(comp).__name__)})
            if not ok:
                got = comp.cls if isinstance(comp, Obj) else ("not (on every path) a validated wrapper object: " + type(comp).__name__)
                ctx.finding("RETURNS-VALIDATED", f, rnode, f"`{f.name}` does not return its decomposition through the validating `{cls}` constructor here (returned: {got}): the format conditions of the output are not re-checked")
        if not seen:
            raise AnalysisError(f"RETURNS-VALIDATED: no return of {qname} was reached by the analysis")


# ---------------------------------------------------------------------------------
class CoreRule(FreshRule):
    def __init__(self, f, row, D, core, factors):
        super().__init__(f, row, D)
        self.core, self.factors = core, factors

    def _transfer(self, node, st, ex):
        if node.kind == "return":
            sync = st[0]
            if ("<swept>" in st[1]) and (self.core, self.factors) not in sync:
                ex.report(("CORE-IN-SYNC", src(node.ast)), f"the returned `{self.core}` was computed before the last write to `{self.factors}`: the core is not the projection of the data onto the returned factors", node)
            return st
        new = super()._transfer(node, st, ex)
        if new is None:
            return None
        a = node.ast
        if node.kind == "stmt" and node.loop is not None and isinstance(a, ast.Assign):
            if any(base_name(x) == self.factors for t in a.targets for x in flat_targets(t)):
                new = (new[0], new[1] | {"<swept>"}, new[2])
        return new


def core_in_sync(ctx: Ctx):
    repo, res = ctx.repo, ctx.res
    qname = D + "_tucker.partial_tucker"
    from ..inline import with_inlined

    f = with_inlined(repo, driver(repo, qname))  # the sweep may live in a private helper
    row = DRIVERS[qname]
    rule = CoreRule(f, row, derived_names(f, row), "core", "factors")
    g = build_cfg(f.node, f.qname, opaque=rule.opaque)
    ex = Explorer(g, rule, track="corr").run()
    # the projection must be the transposed multi-mode product of the data with the factors
    proj = [s for s in own_scope_nodes(f.node) if isinstance(s, ast.Assign) and any(base_name(t) == "core" for t in s.targets) and isinstance(s.value, ast.Call) and callee_name(s.value) == "multi_mode_dot"]
    res.instance("CORE-IN-SYNC", qname, sample={"projections": [src(s)[:90] for s in proj], "states": ex.states})
    if not proj:
        raise AnalysisError("CORE-IN-SYNC: partial_tucker no longer computes core = multi_mode_dot(...)")
    # names that hold the data (the parameter itself, or a local every definition of which is the data
    # or is computed from it: `data = tensor`, `data = impute(data, core, factors)`)
    data_names = {row["data"]}
    changed = True
    while changed:
        changed = False
        for st in own_scope_nodes(f.node):
            if isinstance(st, ast.Assign) and len(st.targets) == 1 and isinstance(st.targets[0], ast.Name) and st.targets[0].id not in data_names:
                nm = st.targets[0].id
                dfs = [x.value for x in own_scope_nodes(f.node) if isinstance(x, ast.Assign) and any(is_name(t, nm) for t in x.targets)]
                if nm not in ("core", "factors") and all(any(isinstance(n, ast.Name) and n.id in data_names | {nm} for n in ast.walk(d)) for d in dfs) and any(any(isinstance(n, ast.Name) and n.id in data_names for n in ast.walk(d)) for d in dfs):
                    data_names.add(nm)
                    changed = True
    for s in proj:
        v = s.value
        ok = v.args and isinstance(v.args[0], ast.Name) and v.args[0].id in data_names and len(v.args) > 1 and isinstance(v.args[1], ast.Name) and v.args[1].id == "factors" and any(k.arg == "transpose" and isinstance(k.value, ast.Constant) and k.value.value is True for k in v.keywords) and any(k.arg == "modes" and isinstance(k.value, ast.Name) and k.value.id == "modes" for k in v.keywords)
        if s.lineno > _loop_line(f) and not ok:
            ctx.finding("CORE-IN-SYNC", f, s, "the core is not computed as multi_mode_dot(tensor, factors, modes=modes, transpose=True): it is not the projection of the data onto the factors")
    for v in ex.violations.values():
        if v.key[0] == "CORE-IN-SYNC":
            ctx.finding("CORE-IN-SYNC", f, v.node.ast, v.message, construct=v.key[1], path=v.path)


def _loop_line(f):
    for s in f.node.body:
        if isinstance(s, ast.For):
            return s.lineno
    return 0


def run(ctx: Ctx):
    res = ctx.res
    res.rule("NORMALISE-ON-EXIT", "under normalize_factors=True every path from a sweep write to a return passes the normalising call (cp_normalize / tucker_normalize of the whole model); so does every path that reaches a return behind the sweep loop without a sweep write (iteration cap 0: a user-supplied start is returned normalised too)", floor=6)
    res.rule("RETURNS-VALIDATED", "every decomposition entry point returns (first component of) a value built by its family's validating wrapper constructor on every path", floor=14)
    res.rule("CORE-IN-SYNC", "in partial_tucker the returned core is multi_mode_dot(tensor, factors, modes=modes, transpose=True) evaluated after the last store into factors", floor=1)
    res.assume(
        "returns in front of the sweep loop (the all-modes-fixed shortcut) are outside NORMALISE-ON-EXIT: there the initialisation is the answer",
        "the wrapper constructors validate (C03 CTOR-VALIDATES)",
        "NOT decided: shapes equal the input's mode sizes and requested ranks; orthonormality; TT-SVD left-orthogonality; 'weights all ones otherwise'",
    )
    DRIVERS[D + "_cmtf_als.coupled_matrix_tensor_3d_factorization"].setdefault("normalize", ("normalize_factors", "cp_normalize"))
    ctx.guarded(normalise_on_exit, ctx)
    res.rule("ABSORBED-ONCE", "initialize_cp, user-supplied CP tensor: on every branch-consistent path on which the weights are multiplied into the factors, the object handed back is built afterwards with weights None (all ones) -- an object that still carries the original weights would apply them twice, and the decomposition returned with normalize_factors=False would not have unit weights", floor=1)
    ctx.guarded(absorbed_once, ctx)
    res.rule("SCALE-FOLLOWS-FACTOR", "once a factorised tensor held in a local has been normalised (N = cp_normalize(N): the scale of every factor now sits in N.weights), a factor of N is not built into another factorised tensor without N.weights: the other model would silently lose that factor's scale (CMTF shares its coupled factor between the tensor and the matrix model)", floor=1)
    ctx.guarded(scale_follows_factor, ctx)
    ctx.guarded(returns_validated, ctx)
    ctx.guarded(core_in_sync, ctx)
    res.rule("RANK-ROTATION", "tensor_ring: every sequence rotated by the starting mode (mode order, rank vector, factor list) is rotated as a cycle of n_dim entries; the rank vector's duplicated closing entry is not part of the cycle", floor=3)
    ctx.guarded(rank_rotation, ctx)


# ---------------------------------------------------------------------------------
# RANK-ROTATION: sequences that are rotated together must have the same cycle length
# ---------------------------------------------------------------------------------
RANK_VALIDATORS = {"validate_tr_rank": (1, 1), "validate_tt_rank": (1, 1)}  # length of the returned rank vector: n_dim + 1
ROTATING = ["tensorly.decomposition._tr_svd.tensor_ring"]


def _rotation(e):
    """`A[m:] + A[:m]`, `A[m:-1] + A[:m] (+ ...)`, `A[-m:] + A[:-m]`, `tuple(range(m, n)) + tuple(range(m))`:
    returns (sequence name | 'range', amount source, dropped closing elements) or None"""
    terms = []
    cur = e
    while isinstance(cur, ast.BinOp) and isinstance(cur.op, ast.Add):
        terms.insert(0, cur.right)
        cur = cur.left
    terms.insert(0, cur)
    if len(terms) < 2:
        return None
    a, b = terms[0], terms[1]

    def unwrap(t):
        while isinstance(t, ast.Call) and isinstance(t.func, ast.Name) and t.func.id in ("tuple", "list") and t.args:
            t = t.args[0]
        return t

    a, b = unwrap(a), unwrap(b)
    if isinstance(a, ast.Subscript) and isinstance(b, ast.Subscript) and isinstance(a.slice, ast.Slice) and isinstance(b.slice, ast.Slice) and isinstance(a.value, ast.Name) and isinstance(b.value, ast.Name) and a.value.id == b.value.id:
        lo, hi = a.slice.lower, a.slice.upper
        if lo is not None and b.slice.lower is None and b.slice.upper is not None and src(lo) == src(b.slice.upper):
            dropped = 0
            if hi is not None:
                if isinstance(hi, ast.UnaryOp) and isinstance(hi.op, ast.USub) and isinstance(hi.operand, ast.Constant) and isinstance(hi.operand.value, int):
                    dropped = hi.operand.value
                else:
                    return None
            return a.value.id, src(lo), dropped
    if isinstance(a, ast.Call) and isinstance(b, ast.Call) and is_name(a.func, "range") and is_name(b.func, "range") and len(a.args) == 2 and len(b.args) == 1 and src(a.args[0]) == src(b.args[0]):
        return "range:" + src(a.args[1]), src(a.args[0]), 0
    return None


def rank_rotation(ctx: Ctx):
    """In tensor_ring the mode order (n_dim entries), the factor list (n_dim entries) and the rank
    vector (n_dim + 1 entries, the closing rank duplicated) are rotated by the starting mode.
    A slice rotation `x[m:] + x[:m]` is a cyclic rotation of *all* entries of x: applied to the
    rank vector as a whole it puts the duplicated closing rank in the middle and shifts every
    later rank by one bond."""
    from .homog import Evaluator, ListV, Other, Deg, N, ONE

    repo, res = ctx.repo, ctx.res

    class RotEval(Evaluator):
        """records the symbolic length of every rotated sequence at the point of the rotation"""

        def _ev(self, e, env):
            r = _rotation(e) if isinstance(e, ast.BinOp) else None
            if r is None:
                return super()._ev(e, env)
            name, amount, dropped = r
            if name.startswith("range:"):
                v = self.ev(ast.parse(name[6:], mode="eval").body, env)
                ln = v.count if isinstance(v, Other) and v.count is not None else None
                elem = {}
            else:
                v = env.get(name)
                ln = v.length if isinstance(v, ListV) and v.length[0] != "?" else None
                elem = v.elem() if isinstance(v, ListV) else {}
            self.rotations.append((e, name, ln, dropped))
            if ln is None:
                return ListV(("?", 0), elem, {})
            # further `+ [x]` terms after the two slices
            extra, cur = 0, e
            while isinstance(cur, ast.BinOp) and isinstance(cur.op, ast.Add) and _rotation(cur) is not None and isinstance(cur.left, ast.BinOp) and _rotation(cur.left) is not None:
                extra += len(cur.right.elts) if isinstance(cur.right, ast.List) else 0
                cur = cur.left
            return ListV((ln[0] - dropped + extra, ln[1]), elem, {})

    for q in ROTATING:
        f = repo.func(q)
        ev = RotEval(ctx, f, {})
        ev.rotations = []
        ev.ctx_returns = {k: ListV(v, {}, {}) for k, v in RANK_VALIDATORS.items()}
        env = {p: Other() for p in f.all_params}
        env[f.all_params[0]] = Deg({"X": ONE}, order=N)
        if "mode" not in f.all_params:
            raise AnalysisError(f"RANK-ROTATION: {q} has no `mode` parameter any more")
        env["mode"] = Other(2)  # a starting mode other than 0: the rotating branch is taken
        ev.run(env)
        stmt_of = {}
        for s_ in own_scope_nodes(f.node):
            if isinstance(s_, ast.Assign):
                for x in ast.walk(s_.value):
                    stmt_of[id(x)] = s_
        seen = set()
        rots = [(stmt_of.get(id(e)), name, ln, dropped) for e, name, ln, dropped in ev.rotations if not (id(e) in seen or seen.add(id(e)))]
        if not rots:
            raise AnalysisError(f"RANK-ROTATION: no rotation by the starting mode found in {q}; the rule's anchor vanished")
        for s_, name, ln, dropped in rots:
            if s_ is None:
                continue
            if ln is None:
                raise AnalysisError(f"RANK-ROTATION: the length of `{name}` in {q} could not be determined; cannot decide")
            eff = (ln[0] - dropped, ln[1])
            ok = eff == (0, 1)
            res.instance("RANK-ROTATION", f"{f.name}: {src(s_)[:70]}", sample={"line": s_.lineno, "sequence": name, "length": f"{ln[1]}*n_dim{ln[0]:+d}", "rotated_entries": f"{eff[1]}*n_dim{eff[0]:+d}", "ok": ok})
            if not ok:
                ctx.finding("RANK-ROTATION", f, s_, f"`{src(s_)[:90]}` rotates all {ln[1]}*n_dim{ln[0]:+d} entries of `{name}` by the starting mode, but the ring has n_dim bonds: `{name}` carries the closing rank twice (rank[-1] == rank[0]), so after the rotation the duplicate sits in the middle and every later rank is attached to the wrong bond -- for mode >= 2 the returned cores do not have the requested ranks. Rotate the n_dim distinct entries and close the ring again", construct=f"{f.name}: whole-list rotation of `{name}` (n_dim+1 entries)")


# ---------------------------------------------------------------------------------
# SCALE-FOLLOWS-FACTOR: a factor taken out of a normalised model leaves its scale behind
# ---------------------------------------------------------------------------------
NORMALISERS_ = {"cp_normalize", "tucker_normalize", "parafac2_normalise"}
CTORS_ = {"CPTensor", "TuckerTensor", "Parafac2Tensor", "cp_normalize", "tucker_normalize"}


def scale_follows_factor(ctx: Ctx):
    from ..cfg import build_cfg
    from ..explore import Explorer

    repo, res = ctx.repo, ctx.res
    n = 0
    for f in sorted(repo.functions.values(), key=lambda g: g.qname):
        if not f.module.name.startswith("tensorly.decomposition.") or f.cls is not None:
            continue
        sites = [st for st in own_scope_nodes(f.node) if isinstance(st, ast.Assign) and len(st.targets) == 1 and isinstance(st.targets[0], ast.Name) and isinstance(st.value, ast.Call) and (call_name(st.value) or "") in NORMALISERS_ and len(st.value.args) == 1 and is_name(st.value.args[0], st.targets[0].id)]
        if not sites:
            continue

        class Rule:
            def init_state(self):
                return frozenset()

            def transfer(self, node, st, ex):
                a = node.ast
                if a is None or node.kind not in ("stmt", "return", "test", "for", "with"):
                    return st
                # uses first: a construction that takes N.factors[...] without N.weights
                for c in ast.walk(a):
                    if isinstance(c, ast.Call) and (call_name(c) or "") in CTORS_:
                        inside = list(ast.walk(c))
                        for nm in st:
                            takes = [x for x in inside if isinstance(x, ast.Attribute) and x.attr == "factors" and is_name(x.value, nm)]
                            whole = [x for x in c.args if is_name(x, nm)]
                            has_w = any(isinstance(x, ast.Attribute) and x.attr in ("weights", "core") and is_name(x.value, nm) for x in inside)
                            if takes and not has_w and not whole:
                                ex.report(("SCALE-FOLLOWS-FACTOR", src(c)[:70]), f"`{src(c)[:90]}` builds a factorised tensor from a factor of `{nm}` after `{nm}` was normalised on this path, without `{nm}.weights`: the scale of that factor now sits in `{nm}.weights`, so the new model represents a differently scaled tensor / matrix", node)
                if isinstance(a, ast.Assign) and len(a.targets) == 1 and isinstance(a.targets[0], ast.Name):
                    t = a.targets[0].id
                    if isinstance(a.value, ast.Call) and (call_name(a.value) or "") in NORMALISERS_ and len(a.value.args) == 1 and is_name(a.value.args[0], t):
                        return st | {t}
                    if t in st:
                        return st - {t}
                return st

        g = build_cfg(f.node, f.qname)
        ex = Explorer(g, Rule(), track="corr").run()
        n += 1
        res.instance("SCALE-FOLLOWS-FACTOR", f"{f.qname}: {len(sites)} local model(s) normalised in place", sample={"sites": [src(s_)[:60] for s_ in sites], "states": ex.states})
        for v in ex.violations.values():
            ctx.finding("SCALE-FOLLOWS-FACTOR", f, v.node.ast if v.node is not None else f.node, v.message, construct=f"{f.name}: {v.key[1]}", path=v.path)
    if n == 0:
        raise AnalysisError("SCALE-FOLLOWS-FACTOR: no decomposition normalises a local model object any more; nothing to decide")


# ---------------------------------------------------------------------------------
# ABSORBED-ONCE: weights folded into the factors are not handed back as weights too
# ---------------------------------------------------------------------------------
def absorbed_once(ctx: Ctx):
    from ..cfg import build_cfg
    from ..explore import Explorer
    from ..inline import with_inlined

    repo, res = ctx.repo, ctx.res
    f = with_inlined(repo, repo.func(D + "_cp.initialize_cp"))
    # names that hold the weights of the user's tensor: unpacked from a CPTensor(init) / init
    wnames = set()
    for st in own_scope_nodes(f.node):
        if isinstance(st, ast.Assign) and len(st.targets) == 1 and isinstance(st.targets[0], (ast.Tuple, ast.List)) and len(st.targets[0].elts) == 2 and all(isinstance(x, ast.Name) for x in st.targets[0].elts):
            if any(isinstance(x, ast.Name) and x.id in ("init", "kt") for x in ast.walk(st.value)) or (isinstance(st.value, ast.Call) and call_name(st.value) == "CPTensor"):
                wnames.add(st.targets[0].elts[0].id)
    # ... or read by position / by attribute: w, fs = kt[0], kt[1]; w = kt.weights
    holders = {"init", "kt"} | {st.targets[0].id for st in own_scope_nodes(f.node) if isinstance(st, ast.Assign) and len(st.targets) == 1 and isinstance(st.targets[0], ast.Name) and isinstance(st.value, ast.Call) and call_name(st.value) == "CPTensor"}

    def weight_read(e):
        if isinstance(e, ast.Subscript) and isinstance(e.value, ast.Name) and e.value.id in holders and isinstance(e.slice, ast.Constant) and e.slice.value == 0:
            return True
        return isinstance(e, ast.Attribute) and e.attr == "weights" and isinstance(e.value, ast.Name) and e.value.id in holders

    for st in own_scope_nodes(f.node):
        if isinstance(st, ast.Assign) and len(st.targets) == 1:
            t, v = st.targets[0], st.value
            if isinstance(t, ast.Name) and weight_read(v):
                wnames.add(t.id)
            elif isinstance(t, (ast.Tuple, ast.List)) and isinstance(v, (ast.Tuple, ast.List)) and len(t.elts) == len(v.elts):
                for tt, vv in zip(t.elts, v.elts):
                    if isinstance(tt, ast.Name) and weight_read(vv):
                        wnames.add(tt.id)
    if not wnames:
        raise AnalysisError("ABSORBED-ONCE: initialize_cp no longer unpacks (weights, factors) from the user's CP tensor; cannot decide")
    derived = set(wnames)
    changed = True
    while changed:
        changed = False
        for st in own_scope_nodes(f.node):
            if isinstance(st, ast.Assign) and len(st.targets) == 1 and isinstance(st.targets[0], ast.Name) and st.targets[0].id not in derived and names_in(st.value) & derived:
                derived.add(st.targets[0].id)
                changed = True

    def fresh_unit(v):
        """CPTensor((None, <factors>)) / (None, <factors>)"""
        if isinstance(v, ast.Call) and call_name(v) == "CPTensor" and len(v.args) == 1:
            v = v.args[0]
        return isinstance(v, ast.Tuple) and len(v.elts) == 2 and isinstance(v.elts[0], ast.Constant) and v.elts[0].value is None

    class Rule:
        def init_state(self):
            return (False, frozenset())  # weights absorbed; names bound to an object built with unit weights since

        def transfer(self, node, st, ex):
            absorbed, unit = st
            a = node.ast
            if a is None:
                return st
            if node.kind == "stmt" and isinstance(a, (ast.Assign, ast.AugAssign)):
                tgs = a.targets if isinstance(a, ast.Assign) else [a.target]
                val = a.value
                for t in tgs:
                    if isinstance(t, ast.Subscript) and names_in(val) & derived:
                        # factors[i] = factors[i] * <something computed from the weights>
                        if isinstance(val, ast.BinOp) and isinstance(val.op, ast.Mult):
                            absorbed, unit = True, frozenset()
                    if isinstance(t, ast.Name):
                        unit = (unit | {t.id}) if fresh_unit(val) else (unit - {t.id})
            if node.kind == "return" and absorbed and a.value is not None:
                v = a.value
                ok = fresh_unit(v) or (isinstance(v, ast.Name) and v.id in unit)
                if not ok:
                    ex.report(("ABSORBED-ONCE", src(a)), f"`{src(a)[:70]}` hands back an object built before the weights were multiplied into the factors (or built with them): it carries the user's weights *and* factors already scaled by them, so the weights are applied twice and the returned decomposition does not have unit weights", node)
            return (absorbed, unit)

    g = build_cfg(f.node, f.qname)
    ex = Explorer(g, Rule(), track="corr").run()
    res.instance("ABSORBED-ONCE", f"{f.qname}: user-supplied CP tensor", sample={"weight_names": sorted(wnames), "states": ex.states, "paths": ex.paths_to_exit})
    for v in ex.violations.values():
        ctx.finding("ABSORBED-ONCE", f, v.node.ast if v.node is not None else f.node, v.message, construct=f"initialize_cp: {v.key[1][:60]}", path=v.path)
