"""BROADCAST-ARITY — the two shapes of a broadcast outer product have the same length (C02).

`outer` / `batched_outer` (core backend) build the outer product by broadcasting:

      res = reshape(res, shape_1) * reshape(tensor, shape_2)

with `shape_1 = shape_res + (1,) * k` and `shape_2 = (...) + (1,) * size_res + shape[...]`.
The product is the intended outer product only if both target shapes have the same number of
entries (ones pad the other operand's modes); with unequal lengths NumPy broadcasting aligns
trailing axes and silently multiplies the wrong modes (or raises for generic sizes).  Whether
the lengths agree depends on integer bookkeeping carried from one loop iteration to the next
(`size_res` must equal `len(shape_res) - 1`), i.e. on a *relational loop invariant*.

This module is a small instance of Karr's affine-relation analysis: the abstract state is an
affine subspace of the space of integer variables (integer locals, `len` of tuple locals,
rank of array locals), kept in generator form (a point and direction vectors).  Assignments of
affine expressions transform the generators, unknown values add a direction, control-flow
joins take the affine hull, loops are iterated to a fixpoint (the dimension can only grow).
The first iteration of `for i, x in enumerate(...)` is peeled when the body tests `if i:`.
At every broadcast product the equality len(shape_1) == len(shape_2) is *asserted*: it must
hold on the whole subspace.
"""

from __future__ import annotations

import ast
from fractions import Fraction
from typing import Dict, List, Optional, Tuple

from ..common import Ctx, call_name, is_name, src
from ..model import AnalysisError, own_scope_nodes

Vec = Dict[str, Fraction]  # sparse vector over variable names; "1" is the homogeneous coordinate


def v_add(a: Vec, b: Vec, k=1) -> Vec:
    out = dict(a)
    for x, c in b.items():
        out[x] = out.get(x, 0) + k * c
    return {x: c for x, c in out.items() if c != 0}


def v_scale(a: Vec, k) -> Vec:
    return {x: c * k for x, c in a.items() if c * k != 0}


def v_dot(form: Vec, p: Vec) -> Fraction:
    return sum((c * p.get(x, 0) for x, c in form.items()), Fraction(0))


class Space:
    """affine subspace {p + sum t_i d_i}; `None` point = unreachable (bottom)"""

    def __init__(self, point: Optional[Vec], dirs: List[Vec]):
        self.p, self.d = point, dirs

    @staticmethod
    def bottom():
        return Space(None, [])

    def copy(self):
        return Space(None if self.p is None else dict(self.p), [dict(x) for x in self.d])

    def _reduce(self):
        # keep linearly independent directions (Gaussian elimination)
        basis: List[Vec] = []
        for v in self.d:
            w = dict(v)
            for b in basis:
                piv = next(iter(sorted(b)))
                if piv in w:
                    w = v_add(w, b, -w[piv] / b[piv])
            if w:
                basis.append(w)
        self.d = basis

    def assign(self, var: str, form: Optional[Vec]):
        """var := form (affine in the current variables, with the constant under "1"); form None = unknown"""
        if self.p is None:
            return
        if form is None:
            self.p.pop(var, None)
            for v in self.d:
                v.pop(var, None)
            self.d.append({var: Fraction(1)})
            self._reduce()
            return
        lin = {x: c for x, c in form.items() if x != "1"}
        newp = v_dot(lin, self.p) + form.get("1", 0)
        newd = [v_dot(lin, v) for v in self.d]
        if newp:
            self.p[var] = newp
        else:
            self.p.pop(var, None)
        for v, nv in zip(self.d, newd):
            if nv:
                v[var] = nv
            else:
                v.pop(var, None)
        self.d = [v for v in self.d if v]
        self._reduce()

    def holds(self, form: Vec) -> bool:
        """form == 0 on the whole subspace"""
        if self.p is None:
            return True
        lin = {x: c for x, c in form.items() if x != "1"}
        if v_dot(lin, self.p) + form.get("1", 0) != 0:
            return False
        return all(v_dot(lin, v) == 0 for v in self.d)

    def join(self, o: "Space") -> "Space":
        if self.p is None:
            return o.copy()
        if o.p is None:
            return self.copy()
        s = Space(dict(self.p), [dict(x) for x in self.d] + [dict(x) for x in o.d] + [v_add(o.p, self.p, -1)])
        s.d = [v for v in s.d if v]
        s._reduce()
        return s

    def dim(self):
        return -1 if self.p is None else len(self.d)

    def same(self, o: "Space") -> bool:
        if (self.p is None) != (o.p is None):
            return False
        if self.p is None:
            return True
        return self.dim() == o.dim() and self.join(o).dim() == self.dim()


class Lost(Exception):
    pass


class Karr:
    def __init__(self, f):
        self.f = f
        self.asserts: List[Tuple[ast.AST, Vec, bool, Space]] = []
        self.kinds: Dict[str, str] = {}  # name -> int | tuple | array

    # expression -> affine form over variables (ints), or tuple length form
    def int_form(self, e) -> Optional[Vec]:
        if isinstance(e, ast.Constant) and isinstance(e.value, int) and not isinstance(e.value, bool):
            return {"1": Fraction(e.value)} if e.value else {}
        if isinstance(e, ast.Name):
            if self.kinds.get(e.id) == "int":
                return {e.id: Fraction(1)}
            return None
        if isinstance(e, ast.BinOp) and isinstance(e.op, (ast.Add, ast.Sub)):
            a, b = self.int_form(e.left), self.int_form(e.right)
            if a is None or b is None:
                return None
            return v_add(a, b, 1 if isinstance(e.op, ast.Add) else -1)
        if isinstance(e, ast.Call) and is_name(e.func, "len") and e.args:
            return self.len_form(e.args[0])
        if isinstance(e, ast.Call) and call_name(e) == "ndim" and e.args and isinstance(e.args[0], ast.Name) and self.kinds.get(e.args[0].id) == "array":
            return {"rank:" + e.args[0].id: Fraction(1)}
        return None

    def len_form(self, e) -> Optional[Vec]:
        """number of entries of a tuple-valued expression"""
        if isinstance(e, ast.Name) and self.kinds.get(e.id) == "tuple":
            return {"len:" + e.id: Fraction(1)}
        if isinstance(e, ast.Tuple):
            if any(isinstance(x, ast.Starred) for x in e.elts):
                return None
            return {"1": Fraction(len(e.elts))} if e.elts else {}
        if isinstance(e, ast.Call) and call_name(e) == "shape" and e.args and isinstance(e.args[0], ast.Name) and self.kinds.get(e.args[0].id) == "array":
            return {"rank:" + e.args[0].id: Fraction(1)}
        if isinstance(e, ast.Attribute) and e.attr == "shape" and isinstance(e.value, ast.Name) and self.kinds.get(e.value.id) == "array":
            return {"rank:" + e.value.id: Fraction(1)}
        if isinstance(e, ast.Call) and call_name(e) in ("tuple", "list") and e.args:
            return self.len_form(e.args[0])
        if isinstance(e, ast.BinOp) and isinstance(e.op, ast.Add):
            a, b = self.len_form(e.left), self.len_form(e.right)
            return None if a is None or b is None else v_add(a, b)
        if isinstance(e, ast.BinOp) and isinstance(e.op, ast.Mult):
            # (x,) * k  /  k * (x,)
            for t, k in ((e.left, e.right), (e.right, e.left)):
                if isinstance(t, ast.Tuple) and len(t.elts) == 1:
                    return self.int_form(k)
            return None
        if isinstance(e, ast.Subscript) and isinstance(e.slice, ast.Slice) and e.slice.step is None:
            base = self.len_form(e.value)
            if base is None:
                return None
            lo = e.slice.lower
            hi = e.slice.upper
            out = base
            if hi is not None:
                if isinstance(hi, ast.UnaryOp) and isinstance(hi.op, ast.USub):
                    h = self.int_form(hi.operand)
                    if h is None:
                        return None
                    out = v_add(out, h, -1)
                else:
                    h = self.int_form(hi)
                    if h is None:
                        return None
                    out = h
            if lo is not None:
                l = self.int_form(lo)
                if l is None or (isinstance(lo, ast.UnaryOp)):
                    return None
                out = v_add(out, l, -1)
            return out
        return None

    def array_rank(self, e, st: Space) -> Optional[Vec]:
        """rank of an array-valued expression; broadcast products are asserted"""
        if isinstance(e, ast.Name) and self.kinds.get(e.id) == "array":
            return {"rank:" + e.id: Fraction(1)}
        if isinstance(e, ast.Call) and call_name(e) == "reshape" and len(e.args) >= 2:
            self.array_rank(e.args[0], st)
            return self.len_form(e.args[1])
        if isinstance(e, ast.BinOp) and isinstance(e.op, (ast.Mult, ast.Add, ast.Sub, ast.Div)):
            a, b = self.array_rank(e.left, st), self.array_rank(e.right, st)
            def is_reshape(x):
                return (isinstance(x, ast.Call) and call_name(x) == "reshape") or (isinstance(x, ast.Name) and x.id in getattr(self, "reshaped", set()))

            if a is not None and b is not None and is_reshape(e.left) and is_reshape(e.right):
                diff = v_add(a, b, -1)
                ok = st.holds(diff)
                self.asserts.append((e, diff, ok, st.copy()))
                return a
            return a if a is not None else b
        return None

    def classify(self):
        """int / tuple / array locals, by how they are defined"""
        f = self.f
        for p in f.all_params:
            self.kinds[p] = "other"
        changed = True
        while changed:
            changed = False
            for s in own_scope_nodes(f.node):
                tgts, val = [], None
                if isinstance(s, ast.Assign) and len(s.targets) == 1 and isinstance(s.targets[0], ast.Name):
                    tgts, val = [s.targets[0].id], s.value
                elif isinstance(s, ast.AugAssign) and isinstance(s.target, ast.Name):
                    tgts, val = [s.target.id], s.value
                elif isinstance(s, ast.For) and isinstance(s.target, ast.Tuple) and isinstance(s.iter, ast.Call) and is_name(s.iter.func, "enumerate"):
                    for el, k in zip(s.target.elts, ("int", "array")):
                        if isinstance(el, ast.Name) and self.kinds.get(el.id) != k:
                            self.kinds[el.id] = k
                            changed = True
                    continue
                for t in tgts:
                    k = None
                    if self.int_form(val) is not None or (isinstance(val, ast.Subscript) and not isinstance(val.slice, ast.Slice) and self.len_form(val.value) is not None):
                        k = "int"
                    elif self.len_form(val) is not None:
                        k = "tuple"
                    elif isinstance(val, ast.Name) and self.kinds.get(val.id) == "array":
                        k = "array"
                    elif isinstance(val, ast.BinOp) and any(isinstance(x, ast.Call) and call_name(x) == "reshape" for x in ast.walk(val)):
                        k = "array"
                    elif isinstance(val, ast.Call) and call_name(val) == "reshape":
                        k = "array"  # lhs = reshape(a, s1)
                    elif isinstance(val, ast.BinOp) and isinstance(val.left, ast.Name) and isinstance(val.right, ast.Name) and self.kinds.get(val.left.id) == "array" and self.kinds.get(val.right.id) == "array":
                        k = "array"  # res = lhs * rhs
                    if k is not None and self.kinds.get(t) != k:
                        self.kinds[t] = k
                        changed = True

    # statements ----------------------------------------------------------------------
    def block(self, stmts, st: Space, flags: Dict[str, bool]) -> Space:
        for s in stmts:
            if st.p is None:
                return st
            if isinstance(s, ast.Assign) and len(s.targets) == 1 and isinstance(s.targets[0], ast.Name):
                t, val = s.targets[0].id, s.value
                k = self.kinds.get(t)
                if k == "int":
                    st.assign(t, self.int_form(val))
                elif k == "tuple":
                    st.assign("len:" + t, self.len_form(val))
                elif k == "array":
                    st.assign("rank:" + t, self.array_rank(val, st))
                    # a name given the result of a reshape stands for that reshape in a later product
                    if isinstance(val, ast.Call) and call_name(val) == "reshape":
                        self.reshaped = getattr(self, "reshaped", set()) | {t}
                    else:
                        self.reshaped = getattr(self, "reshaped", set()) - {t}
                else:
                    self.array_rank(val, st)
            elif isinstance(s, ast.AugAssign) and isinstance(s.target, ast.Name):
                t = s.target.id
                fake = ast.BinOp(left=ast.Name(id=t, ctx=ast.Load()), op=s.op, right=s.value)
                k = self.kinds.get(t)
                if k == "int":
                    st.assign(t, self.int_form(fake))
                elif k == "tuple":
                    st.assign("len:" + t, self.len_form(fake))
                elif k == "array":
                    st.assign("rank:" + t, self.array_rank(fake, st))
            elif isinstance(s, ast.If):
                t = s.test
                neg = isinstance(t, ast.UnaryOp) and isinstance(t.op, ast.Not)
                tn = t.operand if neg else t
                if isinstance(tn, ast.Name) and tn.id in flags:
                    truth = flags[tn.id] != neg
                    st = self.block(s.body if truth else s.orelse, st, flags)
                elif all(isinstance(b, ast.Raise) for b in s.body) and not s.orelse:
                    continue  # a rejecting test
                else:
                    a = self.block(s.body, st.copy(), flags)
                    b = self.block(s.orelse, st.copy(), flags)
                    st = a.join(b)
            elif isinstance(s, ast.For):
                st = self.loop(s, st, flags)
            elif isinstance(s, ast.Return):
                self.array_rank(s.value, st) if s.value is not None else None
                return Space.bottom()
            elif isinstance(s, (ast.Raise,)):
                return Space.bottom()
        return st

    def loop(self, s: ast.For, st: Space, flags):
        idx = None
        elem = None
        if isinstance(s.iter, ast.Call) and is_name(s.iter.func, "enumerate") and isinstance(s.target, ast.Tuple) and len(s.target.elts) == 2:
            idx = s.target.elts[0].id if isinstance(s.target.elts[0], ast.Name) else None
            elem = s.target.elts[1].id if isinstance(s.target.elts[1], ast.Name) else None
        tests_idx = idx is not None and any(isinstance(n, ast.If) and is_name(n.test, idx) or (isinstance(n, ast.If) and isinstance(n.test, ast.UnaryOp) and is_name(n.test.operand, idx)) for n in ast.walk(s))

        def body(state, first: bool):
            state = state.copy()
            if elem is not None and self.kinds.get(elem) == "array":
                state.assign("rank:" + elem, None)
            fl = dict(flags)
            if tests_idx:
                fl[idx] = not first
            elif idx is not None:
                state.assign(idx, None) if self.kinds.get(idx) == "int" else None
            return self.block(s.body, state, fl)

        if tests_idx:
            st = body(st, True)  # the first iteration: index 0
        head = st
        for _ in range(12):
            out = body(head, False)
            new = head.join(out)
            if new.same(head):
                break
            head = new
        else:
            raise Lost("the loop did not stabilise")
        # assertions recorded during earlier (smaller) iterations are superseded: re-run once on the fixpoint
        self.asserts = [a for a in self.asserts if not any(a[0] is n for n in ast.walk(s))] if False else self.asserts
        final_asserts_start = len(self.asserts)
        body(head, False)
        self.final_from = final_asserts_start
        return head  # the loop may also run only once: head already joins both


SPECS = ["tensorly.tenalg.core_tenalg.outer_product.outer", "tensorly.tenalg.core_tenalg.outer_product.batched_outer"]


def broadcast_arity(ctx: Ctx, rule="BROADCAST-ARITY"):
    res = ctx.res
    from ..inline import with_inlined

    for q in SPECS:
        f = with_inlined(ctx.repo, ctx.repo.func(q))  # private helpers wrapping the product are expanded
        k = Karr(f)
        k.classify()
        k.final_from = 0
        try:
            k.block(f.node.body, Space({}, []), {})
        except Lost as e:
            raise AnalysisError(f"{rule}: {q}: {e}; cannot decide")
        if not k.asserts:
            raise AnalysisError(f"{rule}: no broadcast product reshape(a, s1) * reshape(b, s2) found in {q}; the rule's anchor vanished")
        # verdict per product site: the assertion on the loop's fixpoint (the last evaluation of each site)
        last = {}
        for node, diff, ok, st in k.asserts:
            last[id(node)] = (node, diff, ok, st)
        for node, diff, ok, st in last.values():
            res.instance(rule, f"{f.name}: {src(node)[:60]}", sample={"line": node.lineno, "len(shape_1) - len(shape_2)": " + ".join(f"{c}*{x}" for x, c in sorted(diff.items())) or "0", "invariant_dimension": st.dim(), "ok": ok})
            if not ok:
                ctx.finding(rule, f, node, f"`{src(node)[:90]}`: the two reshape targets do not provably have the same number of entries in every iteration (their difference is {' + '.join(f'{c}*{x}' for x, c in sorted(diff.items())) or '0'} and the loop invariant does not make it 0): the bookkeeping of the running result's shape and of its number of modes have drifted apart, so for some operand orders broadcasting multiplies the wrong modes (or raises)", construct=f"{f.name}: broadcast product with unequal shape lengths")
