"""C13 — NNLS solvers return KKT-optimal solutions (partial: unit consistency).

KKT optimality of the returned numbers is a numerical fact and is not decided.  One clause
of it is visible in the code: the solution of  min ||U x - m||^2 (x >= 0)  given the
normal-equation data (UtM, UtU) is homogeneous of degree +1 in UtM and -1 in UtU, the l1
coefficient has the unit of UtM, the ridge coefficient the unit of UtU.  A solver that is to
return that solution for *every* input must therefore

UNIT-CONSISTENT   (a) never add / subtract / store-over quantities of different units
                  (UtM[k] - UtU[k] @ V + UtU[k,k] * V[k] is unit-correct; UtM - V is not), and
                  (b) return a value of degree UtM / UtU on every return path.

BLOCK-INDEPENDENT (rules/affine.py) the HALS row update is the exact minimiser over row k: in an
                  affine-form abstract domain (value = alpha * old_row + beta, alpha and beta
                  rational functions of opaque atoms) the coefficient alpha of the stored row is 0
                  after cancellation, with and without the sparsity / ridge coefficients.  The
                  textbook "incremental" form V[k] + (UtM[k] - UtU[k] V - ls) / (UtU[k,k] + 2 lr)
                  -- the formula of the function's own docstring -- has alpha =
                  2 lr / (UtU[k,k] + 2 lr): a damped step whose fixed point ignores the ridge term.

Rescaling the design (U -> cU) rescales UtM by c and UtU by c^2; an update that mixes units
gives a result that is not the rescaled solution, i.e. not KKT-optimal for one of the two
(equivalent) problems.  Checked for hals_nnls (cold / warm start, with and without sparsity
and ridge coefficients), fista (cold / warm, penalised), active_set_nnls (cold / warm) and
admm (unconstrained branch and constrained iteration).
"""

from __future__ import annotations

import ast

from ..common import Ctx, src
from ..model import AnalysisError
from .homog import ONE, Deg, Other, run_units

M = Deg({"M": ONE})
U = Deg({"U": ONE})
SOL = {"M": ONE, "U": (-1, 0)}
X0 = Deg(dict(SOL))
NONE_ = Other(None, True)

SPECS = [
    # (function, entry, label)
    ("tensorly.solvers.nnls.hals_nnls", {"UtM": M, "UtU": U, "V": NONE_}, "cold start"),
    ("tensorly.solvers.nnls.hals_nnls", {"UtM": M, "UtU": U, "V": X0}, "warm start"),
    ("tensorly.solvers.nnls.hals_nnls", {"UtM": M, "UtU": U, "V": X0, "sparsity_coefficient": Deg({"M": ONE}), "ridge_coefficient": Deg({"U": ONE})}, "warm start, l1 and ridge coefficients"),
    ("tensorly.solvers.nnls.fista", {"UtM": M, "UtU": U, "x": NONE_}, "cold start"),
    ("tensorly.solvers.nnls.fista", {"UtM": M, "UtU": U, "x": X0, "sparsity_coef": Deg({"M": ONE}), "ridge_coef": Deg({"U": ONE})}, "warm start, l1 and ridge coefficients"),
    ("tensorly.solvers.nnls.active_set_nnls", {"Utm": M, "UtU": U, "x": NONE_}, "cold start"),
    ("tensorly.solvers.nnls.active_set_nnls", {"Utm": M, "UtU": U, "x": X0}, "warm start"),
    ("tensorly.solvers.admm.admm", {"UtM": M, "UtU": U, "x": X0, "dual_var": X0, "n_const": NONE_}, "no constraint"),
    ("tensorly.solvers.admm.admm", {"UtM": M, "UtU": U, "x": X0, "dual_var": X0, "n_const": Other(3), "order": Other(0)}, "constrained iteration"),
]


def run(ctx: Ctx):
    res = ctx.res
    res.rule("UNIT-CONSISTENT", "dimensional analysis of hals_nnls, fista, active_set_nnls and admm with UtM, UtU (and the l1 / ridge coefficients) as units: no sum, difference or element store combines quantities of different units, and every returned solution has the unit UtM / UtU of the exact (penalised) least-squares solution -- cold and warm start", floor=9)
    res.assume(
        "decides unit consistency only (a necessary condition of returning the KKT point for every input, by the rescaling argument in the module docstring); optimality, feasibility beyond C10, convergence and the choice of step size are NOT decided",
        "the clamp where(x < eps, eps, x) / clip(x, a_min=eps) is evaluated as x; proximal_operator is taken as unit-preserving",
    )
    ctx.guarded(unit_consistent, ctx)
    res.rule("START-FREE", "admm with no constraint (n_const is None) and an iteration budget >= 1: on every path the returned primal has no data dependence on the start values `x` and `dual_var` (def-use dependence along branch-consistent paths) -- it is the unique solution of the normal equations", floor=1)
    ctx.guarded(start_free, ctx)
    res.rule("MUST-SOLVE", "active_set_nnls (iteration budget >= 1): every path to a return passes through a solve of the passive-set system -- no shortcut returns a warm start or an intermediate iterate that was never made stationary on its positive entries", floor=1)
    ctx.guarded(must_solve, ctx)
    res.rule("COMPLEMENT-IN-SYNC", "active_set_nnls keeps the passive set and the active set as two boolean masks that are complements of each other (x > 0 / x <= 0; True / False stored at the same index): every statement block that writes one of them writes the other, so the optimality test over the active set always looks at exactly the coordinates that are not passive", floor=2)
    ctx.guarded(complement_in_sync, ctx)
    from .affine import block_independent

    res.rule("BLOCK-INDEPENDENT", "affine-form dependence analysis of the HALS row update: after cancellation the new row k does not depend on the old row k (coefficient 0 as a rational function of UtU[k, k] and the coefficients), for every combination of the optional sparsity / ridge coefficients -- the exact coordinate minimiser is a function of the other rows only", floor=4)
    ctx.guarded(block_independent, ctx, "BLOCK-INDEPENDENT", "tensorly.solvers.nnls.hals_nnls", "V", ["sparsity_coefficient is not None", "ridge_coefficient is not None"])


def complement_in_sync(ctx: Ctx):
    import ast as _ast

    from ..common import src as _src
    from ..inline import with_inlined
    from ..model import AnalysisError as _AE

    f = with_inlined(ctx.repo, ctx.repo.func("tensorly.solvers.nnls.active_set_nnls"))
    # the pair: two locals assigned complementary comparisons of the same operand in one block
    pair = None
    blocks = []
    for n in _ast.walk(f.node):
        for fld in ("body", "orelse", "finalbody"):
            b = getattr(n, fld, None)
            if isinstance(b, list) and b and isinstance(b[0], _ast.stmt):
                blocks.append(b)
        if isinstance(n, _ast.ExceptHandler):
            blocks.append(n.body)
    comp = {_ast.Gt: _ast.LtE, _ast.LtE: _ast.Gt, _ast.Lt: _ast.GtE, _ast.GtE: _ast.Lt}
    for b in blocks:
        cmps = [(st.targets[0].id, st.value) for st in b if isinstance(st, _ast.Assign) and len(st.targets) == 1 and isinstance(st.targets[0], _ast.Name) and isinstance(st.value, _ast.Compare) and len(st.value.ops) == 1]
        for i, (n1, c1) in enumerate(cmps):
            for n2, c2 in cmps[i + 1 :]:
                if n1 != n2 and comp.get(type(c1.ops[0])) is type(c2.ops[0]) and _ast.dump(c1.left) == _ast.dump(c2.left) and _ast.dump(c1.comparators[0]) == _ast.dump(c2.comparators[0]):
                    pair = (n1, n2)
    if pair is None:
        raise _AE("COMPLEMENT-IN-SYNC: active_set_nnls no longer initialises two complementary masks (x > 0 / x <= 0); cannot decide")
    a, b_ = pair

    def writes(block, name):
        return [st for st in block if isinstance(st, (_ast.Assign, _ast.AugAssign)) and any(isinstance(t, _ast.Name) and t.id == name for t in (st.targets if isinstance(st, _ast.Assign) else [st.target]))]

    n = 0
    for blk in blocks:
        wa, wb = writes(blk, a), writes(blk, b_)
        if not wa and not wb:
            continue
        n += 1
        ok = bool(wa) and bool(wb)
        ctx.res.instance("COMPLEMENT-IN-SYNC", f"{f.qname}: block at line {blk[0].lineno}", sample={"writes": {a: len(wa), b_: len(wb)}, "ok": ok})
        if not ok:
            one, other = (a, b_) if wa else (b_, a)
            st = (wa or wb)[0]
            ctx.finding("COMPLEMENT-IN-SYNC", f, st, f"active_set_nnls: `{_src(st)[:70]}` updates `{one}` but the block does not update its complement `{other}`: from here on the two masks disagree, and the test that reads `{other}` (optimality of the coordinates at zero / the restricted solve) looks at an outdated set -- a coordinate expelled in this step is never checked for a positive dual, so the solver can stop at a point that is not KKT-optimal", construct=f"active_set_nnls: {one} written without {other}")
    if n == 0:
        raise _AE("COMPLEMENT-IN-SYNC: no block writes the masks; cannot decide")


def unit_consistent(ctx: Ctx):
    run_units(
        ctx,
        "UNIT-CONSISTENT",
        [(q, e, SOL, l) for q, e, l in SPECS],
        "M = unit of UtM, U = unit of UtU, a solution has unit M U^(-1)",
        "the update is not invariant under rescaling the design, so its fixed point is not the least-squares solution for every input",
    )


# ---------------------------------------------------------------------------------
# MUST-SOLVE: every returned active-set solution went through a passive-set solve
# ---------------------------------------------------------------------------------
class _SolveRule:
    """state = (a passive-set solve has been executed on this path, the iteration loop was entered)"""

    def __init__(self, loop_line):
        self.loop_line = loop_line

    def init_state(self):
        return (False, False)

    def transfer(self, node, st, ex):
        import ast as _ast

        from ..common import call_name as _cn

        solved, looped = st
        a = node.ast
        if a is None:
            return st
        if node.kind == "return" and not solved:
            ex.report(("MUST-SOLVE", f"line {getattr(a, 'lineno', 0)}"), "this return is reached on a path that never solved the least-squares problem restricted to the passive set: the value returned there (a warm start, or an intermediate iterate) has not been made stationary on its positive entries, so it is not a KKT point in general", node)
        if node.kind in ("stmt", "test", "return", "with"):
            scan = a.test if node.kind == "test" and hasattr(a, "test") else a
            for c in _ast.walk(scan):
                if isinstance(c, _ast.Call) and _cn(c) in ("solve", "lstsq"):
                    solved = True
        return (solved, looped)

    def decide_for(self, node, st, ex):
        # the iteration budget is at least one ("run to convergence"): the outer loop is entered
        if getattr(node.ast, "lineno", None) == self.loop_line and not st[1]:
            return "iter"
        return None

    def edge(self, node, label, st, ex):
        if node.kind == "for" and getattr(node.ast, "lineno", None) == self.loop_line and label == "iter":
            return (st[0], True)
        return st


def must_solve(ctx: Ctx):
    import ast as _ast

    from ..cfg import build_cfg
    from ..explore import Explorer
    from ..model import AnalysisError as _AE, own_scope_nodes

    from ..inline import with_inlined

    f = with_inlined(ctx.repo, ctx.repo.func("tensorly.solvers.nnls.active_set_nnls"))  # the solve may live in a module helper
    loops = [n for n in f.node.body if isinstance(n, _ast.For)]
    if len(loops) != 1:
        raise _AE("MUST-SOLVE: active_set_nnls no longer has exactly one top-level iteration loop; cannot decide")
    solves = [c for c in own_scope_nodes(f.node) if isinstance(c, _ast.Call) and call_name_(c) in ("solve", "lstsq")]
    if not solves:
        raise _AE("MUST-SOLVE: active_set_nnls contains no passive-set solve any more; cannot decide")
    g = build_cfg(f.node, f.qname)
    ex = Explorer(g, _SolveRule(loops[0].lineno), track="corr").run()
    rets = [r for r in own_scope_nodes(f.node) if isinstance(r, _ast.Return)]
    ctx.res.instance("MUST-SOLVE", f"{f.qname}: {len(rets)} return(s), {len(solves)} solve site(s)", sample={"states": ex.states, "paths": ex.paths_to_exit, "truncated": ex.truncated})
    if ex.truncated:
        raise _AE("MUST-SOLVE: state budget exceeded; cannot decide")
    for v in ex.violations.values():
        ctx.finding("MUST-SOLVE", f, v.node.ast if v.node is not None else f.node, v.message, construct=f"active_set_nnls: return without a passive-set solve ({v.key[1]})", path=v.path)


# ---------------------------------------------------------------------------------
# START-FREE: the unconstrained solve does not depend on where ADMM was started
# ---------------------------------------------------------------------------------
class _DepRule:
    """state: for every local, the subset of {start parameters} its value depends on (flow- and path-
    sensitive def-use dependence; a call depends on all its operands)"""

    def __init__(self, f, starts, loop_line):
        self.f, self.starts, self.loop_line = f, tuple(starts), loop_line

    def init_state(self):
        return tuple(sorted((p, (p,)) for p in self.starts))

    def decide_for(self, node, st, ex):
        # the iteration budget is at least one: the outer loop is entered (a zero budget hands the start back)
        if getattr(node.ast, "lineno", None) == self.loop_line and not any(k == "<looped>" for k, _ in st):
            return "iter"
        return None

    def edge(self, node, label, st, ex):
        if node.kind == "for" and getattr(node.ast, "lineno", None) == self.loop_line and label == "iter":
            return tuple(sorted(set(st) | {("<looped>", ("<looped>",))}))
        return st

    @staticmethod
    def _deps(e, env):
        out = set()
        for n in __import__("ast").walk(e):
            if isinstance(n, __import__("ast").Name) and n.id in env:
                out |= set(env[n.id])
        return out

    def transfer(self, node, st, ex):
        import ast as _ast

        a = node.ast
        env = dict(st)
        if a is None:
            return st
        if node.kind in ("stmt", "for", "with"):
            if isinstance(a, _ast.Assign):
                d = self._deps(a.value, env)
                for t in a.targets:
                    for x in _ast.walk(t):
                        if isinstance(x, _ast.Name) and isinstance(x.ctx, _ast.Store):
                            env[x.id] = tuple(sorted(d))
                        elif isinstance(x, _ast.Name) and isinstance(t, (_ast.Subscript, _ast.Attribute)):
                            env[x.id] = tuple(sorted(set(env.get(x.id, ())) | d))
            elif isinstance(a, _ast.AugAssign) and isinstance(a.target, _ast.Name):
                env[a.target.id] = tuple(sorted(set(env.get(a.target.id, ())) | self._deps(a.value, env)))
            elif isinstance(a, _ast.For):
                d = self._deps(a.iter, env)
                for x in _ast.walk(a.target):
                    if isinstance(x, _ast.Name):
                        env[x.id] = tuple(sorted(d))
        if node.kind == "return" and a.value is not None:
            first = a.value.elts[0] if isinstance(a.value, _ast.Tuple) and a.value.elts else a.value
            d = self._deps(first, env) - {"<looped>"}
            if d:
                ex.report(("START-FREE", src_(a)), f"with no constraint (n_const is None) admm returns `{src_(first)[:60]}`, which depends on the start value(s) {sorted(d)}: the unconstrained least-squares solution is unique and cannot depend on where the iteration was started (a non-zero dual variable or primal start changes the answer)", node)
        return tuple(sorted((k, tuple(v)) for k, v in env.items() if v))


def src_(n):
    from ..common import src as _s

    return _s(n)


def start_free(ctx: Ctx):
    from ..cfg import build_cfg
    from ..explore import Explorer
    from ..model import AnalysisError as _AE

    f = ctx.repo.func("tensorly.solvers.admm.admm")
    need = ["x", "dual_var", "n_const"]
    if [p for p in need if p not in f.all_params]:
        raise _AE(f"START-FREE: admm no longer takes {need}")
    import ast as _ast

    loops = [n for n in f.node.body if isinstance(n, _ast.For)]
    if len(loops) != 1:
        raise _AE("START-FREE: admm no longer has exactly one top-level iteration loop; cannot decide")
    g = build_cfg(f.node, f.qname)
    ex = Explorer(g, _DepRule(f, ("x", "dual_var"), loops[0].lineno), entry_valuation={"n_const is None": True}, track="corr").run()
    ctx.res.instance("START-FREE", f"{f.qname} [n_const is None]", sample={"states": ex.states, "paths": ex.paths_to_exit})
    if ex.paths_to_exit == 0:
        raise _AE("START-FREE: no returning path of admm with n_const None; cannot decide")
    for v in ex.violations.values():
        ctx.finding("START-FREE", f, v.node.ast, v.message, construct="admm [n_const is None]: result depends on the start", path=v.path)


def call_name_(c):
    from ..common import call_name as _cn

    return _cn(c)
