"""C13 — NNLS solvers return KKT-optimal solutions (partial: unit consistency).

KKT optimality of the returned numbers is a numerical fact and is not decided.  One clause
of it is visible in the code: the solution of  min ||U x - m||^2 (x >= 0)  given the
normal-equation data (UtM, UtU) is homogeneous of degree +1 in UtM and -1 in UtU, the l1
coefficient has the unit of UtM, the ridge coefficient the unit of UtU.  A solver that is to
return that solution for *every* input must therefore

UNIT-CONSISTENT   (a) never add / subtract / store-over quantities of different units
                  (UtM[k] - UtU[k] @ V + UtU[k,k] * V[k] is unit-correct; UtM - V is not), and
                  (b) return a value of degree UtM / UtU on every return path.

Rescaling the design (U -> cU) rescales UtM by c and UtU by c^2; an update that mixes units
gives a result that is not the rescaled solution, i.e. not KKT-optimal for one of the two
(equivalent) problems.  Checked for hals_nnls (cold / warm start, with and without sparsity
and ridge coefficients), fista (cold / warm, penalised), active_set_nnls (cold / warm) and
admm (unconstrained branch and constrained iteration).
"""

from __future__ import annotations

import ast

from ..common import Ctx, src
from ..model import AnalysisError
from .homog import ONE, Deg, Evaluator, Other, Top, degree_of, fmt

M = Deg({"M": ONE})
U = Deg({"U": ONE})
SOL = {"M": ONE, "U": (-1, 0)}
X0 = Deg(dict(SOL))
NONE_ = Other(None, True)

SPECS = [
    # (function, entry, label)
    ("tensorly.solvers.nnls.hals_nnls", {"UtM": M, "UtU": U, "V": NONE_}, "cold start"),
    ("tensorly.solvers.nnls.hals_nnls", {"UtM": M, "UtU": U, "V": X0}, "warm start"),
    ("tensorly.solvers.nnls.hals_nnls", {"UtM": M, "UtU": U, "V": X0, "sparsity_coefficient": Deg({"M": ONE}), "ridge_coefficient": Deg({"U": ONE})}, "warm start, l1 and ridge coefficients"),
    ("tensorly.solvers.nnls.fista", {"UtM": M, "UtU": U, "x": NONE_}, "cold start"),
    ("tensorly.solvers.nnls.fista", {"UtM": M, "UtU": U, "x": X0, "sparsity_coef": Deg({"M": ONE}), "ridge_coef": Deg({"U": ONE})}, "warm start, l1 and ridge coefficients"),
    ("tensorly.solvers.nnls.active_set_nnls", {"Utm": M, "UtU": U, "x": NONE_}, "cold start"),
    ("tensorly.solvers.nnls.active_set_nnls", {"Utm": M, "UtU": U, "x": X0}, "warm start"),
    ("tensorly.solvers.admm.admm", {"UtM": M, "UtU": U, "x": X0, "dual_var": X0, "n_const": NONE_}, "no constraint"),
    ("tensorly.solvers.admm.admm", {"UtM": M, "UtU": U, "x": X0, "dual_var": X0, "n_const": Other(3), "order": Other(0)}, "constrained iteration"),
]


def run(ctx: Ctx):
    res = ctx.res
    res.rule("UNIT-CONSISTENT", "dimensional analysis of hals_nnls, fista, active_set_nnls and admm with UtM, UtU (and the l1 / ridge coefficients) as units: no sum, difference or element store combines quantities of different units, and every returned solution has the unit UtM / UtU of the exact (penalised) least-squares solution -- cold and warm start", floor=9)
    res.assume(
        "decides unit consistency only (a necessary condition of returning the KKT point for every input, by the rescaling argument in the module docstring); optimality, feasibility beyond C10, convergence and the choice of step size are NOT decided",
        "the clamp where(x < eps, eps, x) / clip(x, a_min=eps) is evaluated as x; proximal_operator is taken as unit-preserving",
    )
    ctx.guarded(unit_consistent, ctx)


def unit_consistent(ctx: Ctx):
    repo, res = ctx.repo, ctx.res
    for qname, entry, label in SPECS:
        f = repo.func(qname)
        missing = [p for p in entry if p not in f.all_params]
        if missing:
            raise AnalysisError(f"UNIT-CONSISTENT: {qname} no longer has parameter(s) {missing}")
        env = {}
        for p in f.all_params:
            if p in entry:
                env[p] = entry[p]
            elif p in f.defaults and isinstance(f.defaults[p], ast.Constant):
                env[p] = Other(f.defaults[p].value, f.defaults[p].value is None)
            else:
                env[p] = Other()
        ev = Evaluator(ctx, f, {})
        ev.run(env)
        cfg = f"{f.name} [{label}]"
        rets = []
        for node, v, _ in ev.returns:
            parts = [v]
            if isinstance(v, tuple) and v[0] == "tuple":
                parts = v[1]
            for i, pv in enumerate(parts):
                if isinstance(pv, Deg):
                    rets.append((node, i, pv.v))
        if not rets:
            raise AnalysisError(f"UNIT-CONSISTENT: no return of {qname} could be evaluated ({label})")
        seen = set()
        for node, why in ev.problems:
            if id(node) in seen:
                continue
            seen.add(id(node))
            ctx.finding("UNIT-CONSISTENT", f, node, f"`{cfg}`: `{src(node)[:90]}` combines quantities of different units ({why}; M = unit of UtM, U = unit of UtU, a solution has unit M U^(-1)): the update is not invariant under rescaling the design, so its fixed point is not the least-squares solution for every input", construct=f"{f.name}: {src(node)[:80]} mixes units")
        for node, i, got in rets:
            ok = got == SOL
            res.instance("UNIT-CONSISTENT", f"{cfg}: {src(node)[:50]} #{i}", sample={"configuration": label, "unit": fmt(got), "expected": fmt(SOL), "mixed_unit_expressions": len(seen), "ok": ok})
            if isinstance(got, Top) and got.lost:
                raise AnalysisError(f"UNIT-CONSISTENT: the unit of `{src(node)[:60]}` in {cfg} could not be computed ({got.why}); cannot decide")
            if not ok and not isinstance(got, Top):
                ctx.finding("UNIT-CONSISTENT", f, node, f"`{cfg}` returns a value of unit {fmt(got)}; the solution of the (penalised) least-squares problem has unit {fmt(SOL)} (M = unit of UtM, U = unit of UtU)", construct=f"{cfg}: returned unit {fmt(got)} != {fmt(SOL)}")
            elif isinstance(got, Top) and not seen:
                ctx.finding("UNIT-CONSISTENT", f, node, f"`{cfg}` returns a value without a single unit ({got.why})", construct=f"{cfg}: returned unit inhomogeneous")
