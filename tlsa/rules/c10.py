"""C10 — non-negative decompositions return entrywise non-negative factors (partial).

SIGN-AI: abstract interpretation over {non-negative, any}.  Every value stored into a
constrained factor / weight / core slot -- hence every value in the wrapper a non-negative
driver returns -- is built from clipped / absolute-valued operands by sign-preserving
operators, assuming a non-negative user initialisation (as the property states) and an
arbitrary (signed) data tensor.  Solver summaries, initialisers and the normalisers are
computed by the same interpreter, not assumed.
"""

from __future__ import annotations

import ast
from typing import Dict, List, Optional

from ..absint import NONE, Const, Dct, Domain, Fn, Interp, Leaf, Lst, Mod, Obj, Sym, Tup, V
from ..common import Ctx, call_name, is_name, kwarg, src
from ..explore import is_kind
from ..model import AnalysisError, bind_call, own_scope_nodes

BOTL, NNL, ANYL = 0, 1, 2
E = frozenset()
BOT = (BOTL, E)
NN = (NNL, E)


def anyd(label=None):
    return (ANYL, frozenset([label]) if label else E)


def jd(a, b):
    lv = max(a[0], b[0])
    if lv < ANYL:
        return (lv, E)
    labs = (a[1] if a[0] == ANYL else E) | (b[1] if b[0] == ANYL else E)
    if len(labs) > 4:
        labs = frozenset(sorted(labs)[:4])
    return (ANYL, labs)


LAYOUT = {
    "reshape", "transpose", "moveaxis", "flip", "squeeze", "ravel", "copy", "concatenate", "stack", "diag", "conj",
    "to_numpy", "tensor", "asarray", "array", "sort", "tile", "repeat", "expand_dims", "swapaxes", "diagonal", "astype", "real",
    "zeros_like_keep",
}
NN_ALWAYS = {"abs", "zeros", "ones", "eye", "zeros_like", "ones_like", "norm", "exp", "shape", "ndim", "eps", "finfo", "py_len", "count_nonzero", "arange", "is_tensor", "square", "py_abs"}
NN_IF_ALL_NN = {"sign", "dot", "matmul", "tensordot", "kron", "kr", "einsum", "sum", "max", "min", "mean", "prod", "cumsum", "trace", "sqrt", "maximum", "minimum", "py_sum", "py_max", "py_min", "py_int", "py_float", "py_round", "round", "ceil", "floor", "logsumexp"}
ANY_ALWAYS = {"solve", "lstsq", "svd", "qr", "eigh", "partial_svd", "log", "log2", "sin", "cos", "tan", "randn", "digamma", "argmax", "argmin", "argsort"}


# O3 assumptions (DESIGN.md §3 C10): stated, not derived
ALWAYS_TRUE = {"UtU[k, k]"}  # well-conditioned: the HALS row update is performed for every row
AT_LEAST_ONCE = {"tensorly.solvers.nnls.hals_nnls"}  # range(rank) and the (literal) iteration count run at least once
FULL_ROW_SWEEP = {("tensorly.solvers.nnls.hals_nnls", "V")}  # index_update(V, index[k, :], newV) over all k replaces V


def _computed_from(fnode, name, param):
    """``name`` is ``param`` itself or a local every definition of which reads ``param``"""
    if name == param:
        return True
    defs = [st for st in ast.walk(fnode) if isinstance(st, ast.Assign) and any(isinstance(t, ast.Name) and t.id == name for t in st.targets)]
    others = [x for x in ast.walk(fnode) if isinstance(x, ast.Name) and x.id == name and isinstance(x.ctx, ast.Store)]
    return bool(defs) and len(others) == len(defs) and all(any(isinstance(x, ast.Name) and x.id == param for x in ast.walk(st.value)) for st in defs)


def _named_mask(fnode, call, name):
    """the comparison a mask name stands for at ``call``: its definition earlier in the same block, with
    nothing in between writing the mask or anything the comparison reads"""
    for holder in ast.walk(fnode):
        for fld in ("body", "orelse", "finalbody"):
            blk = getattr(holder, fld, None)
            if not (isinstance(blk, list) and blk and isinstance(blk[0], ast.stmt)):
                continue
            for i, st in enumerate(blk):
                if isinstance(st, (ast.If, ast.For, ast.While, ast.With, ast.Try, ast.FunctionDef)) or not any(x is call for x in ast.walk(st)):
                    continue
                written = set()
                for prev in reversed(blk[:i]):
                    stores = {x.id for x in ast.walk(prev) if isinstance(x, ast.Name) and isinstance(x.ctx, ast.Store)}
                    if name.id in stores:
                        if isinstance(prev, ast.Assign) and len(prev.targets) == 1 and isinstance(prev.targets[0], ast.Name) and isinstance(prev.value, ast.Compare):
                            if not ({x.id for x in ast.walk(prev.value) if isinstance(x, ast.Name)} & written):
                                return prev.value
                        return None
                    written |= stores
                    for x in ast.walk(prev):  # in-place edits of what the comparison may read
                        if isinstance(x, ast.Subscript) and isinstance(x.ctx, ast.Store) and isinstance(x.value, ast.Name):
                            written.add(x.value.id)
                return None
    return None


class Sign(Domain):
    name = "sign"

    def __init__(self, repo, assume_true=(), assume_false=()):
        self.repo = repo
        self.assume_true = set(assume_true) | set(ALWAYS_TRUE)
        self.assume_false = set(assume_false)
        self.sanitisers = 0
        self._san_seen = set()

    def bottom(self):
        return BOT

    def join_d(self, a, b):
        if a is None:
            return b
        if b is None:
            return a
        return jd(a, b)

    def const_d(self, c):
        if isinstance(c, bool) or c is None or isinstance(c, str):
            return NN
        if isinstance(c, (int, float)):
            return NN if c >= 0 else anyd()
        return BOT

    def fresh_d(self, node=None):
        return BOT

    def unknown_d(self):
        return anyd()

    def site(self, node, it, what):
        f = it.stack[-1].f if it.stack else None
        return f"{f.module.rel if f else '?'}:{getattr(node, 'lineno', 0)}: {what}: {src(node)[:70]}"

    def _nn(self, v, it):
        return it.datum(v)[0] <= NNL

    def _sanitised(self, node):
        if id(node) not in self._san_seen:
            self._san_seen.add(id(node))
            self.sanitisers += 1

    # -- operators -----------------------------------------------------------------------
    def binop(self, op, a, b, node, it):
        da, db = it.datum(a), it.datum(b)
        if isinstance(op, (ast.Mult, ast.Div, ast.Add, ast.MatMult, ast.FloorDiv, ast.Mod)):
            d = jd(da, db)
            if d[0] == ANYL and not d[1]:
                d = anyd(self.site(node, it, "signed operand"))
            return Leaf(d)
        if isinstance(op, ast.Pow):
            if isinstance(b, Const) and isinstance(b.c, (int, float)) and not isinstance(b.c, bool):
                if isinstance(b.c, int) and b.c % 2 == 0:
                    return Leaf(NN)
                if da[0] <= NNL:
                    return Leaf(NN)
                return Leaf(anyd(self.site(node, it, "odd / fractional power of a signed value")))
            if da[0] <= NNL:
                return Leaf(NN)
            return Leaf(jd(da, anyd(self.site(node, it, "power of a signed value"))))
        if isinstance(op, ast.Sub):
            return Leaf(anyd(self.site(node, it, "difference")))
        return Leaf(jd(da, db))

    def unop(self, op, a, node, it):
        if isinstance(op, ast.USub):
            return Leaf(anyd(self.site(node, it, "negation")))
        return Leaf(it.datum(a))

    def compare(self, a, b, node, it):
        return Leaf(NN)

    def subscript(self, base, index, node, it):
        return base

    def attribute(self, base, attr, node, it):
        if isinstance(base, (Leaf, Sym)):
            if attr in ("shape", "ndim", "size", "dtype"):
                return Leaf(NN)
            if attr in ("T", "real", "flat"):
                return base
        return None

    def store_sub(self, base, index, value, node, it):
        if isinstance(base, Leaf):
            return Leaf(jd(base.d, it.datum(value)))
        return None

    def augassign(self, target, op, value, node, it):
        if isinstance(target, (Leaf, Sym, Const)):
            r = self.binop(op, target, value, node, it)
            return r
        return None

    def unknown_call(self, name, args, kwargs, node, it):
        return Sym(anyd(self.site(node, it, "unknown callable")))

    # -- primitives ------------------------------------------------------------------------
    def _clip(self, args, kwargs, node, it):
        x = args[0] if args else None
        lo = args[1] if len(args) > 1 else kwargs.get("a_min")
        hi = args[2] if len(args) > 2 else kwargs.get("a_max")
        lo_nn = lo is not None and not (isinstance(lo, Const) and lo.c is None) and self._nn(lo, it) and it.datum(lo)[0] != BOTL
        if isinstance(lo, Const) and isinstance(lo.c, (int, float)) and lo.c >= 0:
            lo_nn = True
        if not lo_nn:
            d = it.datum(x) if x is not None else anyd()
            if d[0] <= NNL and (hi is None or self._nn(hi, it) or (isinstance(hi, Const) and hi.c is None)):
                return Leaf(NN)
            return Leaf(anyd(self.site(node, it, "clip without a non-negative lower bound")))
        if hi is None or (isinstance(hi, Const) and hi.c is None):
            self._sanitised(node)
            return Leaf(NN)
        if isinstance(hi, Const) and isinstance(hi.c, (int, float)) and isinstance(lo, Const) and isinstance(lo.c, (int, float)) and hi.c >= lo.c:
            self._sanitised(node)
            return Leaf(NN)
        # an upper bound that depends on the data can fall below the lower bound
        if hi is not None and self._nn(hi, it) and it.datum(hi)[0] == NNL and not isinstance(hi, (Leaf, Sym)):
            return Leaf(NN)
        return Leaf(anyd(self.site(node, it, "clip whose upper bound depends on the data (numpy returns the upper bound everywhere when it is below the lower bound)")))

    def prim(self, name, args, kwargs, node, it):
        last = name.rsplit(".", 1)[-1]
        if last == "clip":
            return self._clip(args, kwargs, node, it)
        if last == "where" and len(args) == 3:
            c = node.args[0] if isinstance(node, ast.Call) and len(node.args) == 3 else None
            a, b = args[1], args[2]
            if isinstance(c, ast.Name) and it.stack:
                c = _named_mask(it.stack[-1].f.node, node, c) or c  # too_small = x < c; where(too_small, c, x)
            # where(x < c, c, x) with c >= 0
            if isinstance(c, ast.Compare) and len(c.ops) == 1 and isinstance(c.ops[0], (ast.Lt, ast.LtE)) and src(c.left) == src(node.args[2]) and src(c.comparators[0]) == src(node.args[1]) and self._nn(a, it) and it.datum(a)[0] == NNL:
                self._sanitised(node)
                return Leaf(NN)
            if isinstance(c, ast.Compare) and len(c.ops) == 1 and isinstance(c.ops[0], (ast.Gt, ast.GtE)) and src(c.left) == src(node.args[1]) and src(c.comparators[0]) == src(node.args[2]) and self._nn(b, it) and it.datum(b)[0] == NNL:
                self._sanitised(node)
                return Leaf(NN)
            return Leaf(jd(it.datum(a), it.datum(b)))
        if last in NN_ALWAYS:
            if last == "abs":
                self._sanitised(node)
            return Leaf(NN) if last not in ("shape",) else Lst(None, Leaf(NN), ())
        if last == "index_update":
            f = it.stack[-1].f if it.stack else None
            a0 = node.args[0] if isinstance(node, ast.Call) and node.args else None
            if f is not None and isinstance(a0, ast.Name) and (f.qname, a0.id) in FULL_ROW_SWEEP:
                # assumption (well-conditioned problem): the sweep over k rewrites every row
                return Leaf(it.datum(args[2]) if len(args) > 2 else BOT)
            d = jd(it.datum(args[0]) if args else BOT, it.datum(args[2]) if len(args) > 2 else BOT)
            return Leaf(d)
        if last == "context":
            return Dct(None, Leaf(NN))
        if last == "check_random_state":
            return Sym(NN)
        if last in LAYOUT:
            d = BOT
            for a in args[:1]:
                d = jd(d, it.datum(a))
            return Leaf(d if d[0] != BOTL else NN) if last != "concatenate" and last != "stack" else Leaf(jd(BOT, it.datum(args[0])) if args else NN)
        if last in NN_IF_ALL_NN:
            d = BOT
            ops = args if last in ("dot", "matmul", "tensordot", "kron", "maximum", "minimum", "py_max", "py_min", "py_sum") else args[:1]
            if last == "einsum":
                ops = args[1:]
            for a in ops:
                d = jd(d, it.datum(a))
            if d[0] == BOTL:
                d = NN
            if d[0] == ANYL and not d[1]:
                d = anyd(self.site(node, it, "signed operand"))
            return Leaf(d)
        if last in ANY_ALWAYS:
            d = anyd(self.site(node, it, f"{last} output is signed"))
            if last in ("svd", "qr", "eigh", "lstsq", "partial_svd"):
                return Sym(d)
            return Leaf(d)
        if last in ("random_sample", "rand", "uniform"):
            return Leaf(NN)
        return None

    def ext(self, dotted, args, kwargs, node, it):
        last = dotted.rsplit(".", 1)[-1]
        if dotted.startswith("numpy"):
            r = self.prim(last, args, kwargs, node, it)
            if r is not None:
                return r
            return Leaf(anyd(self.site(node, it, f"numpy.{last} (sign unknown)")))
        if dotted.startswith("math"):
            if last in ("sqrt", "prod", "exp", "factorial", "ceil", "floor"):
                d = BOT
                for a in args:
                    d = jd(d, it.datum(a))
                return Leaf(d if d[0] != BOTL else NN)
            return Leaf(anyd())
        if dotted.startswith("warnings"):
            return NONE
        return Sym(anyd(self.site(node, it, f"{dotted} (sign unknown)")))

    def method(self, name, recv, args, kwargs, node, it):
        if name in ("random_sample", "rand", "uniform", "gamma", "choice", "randint", "permutation"):
            return Leaf(NN)
        if name in ("randn", "normal", "standard_normal"):
            return Leaf(anyd(self.site(node, it, "normal draw is signed")))
        if isinstance(recv, (Leaf, Sym)):
            if name in ("reshape", "ravel", "transpose", "squeeze", "view", "copy", "astype", "tolist", "flatten", "sum", "max", "min", "mean", "prod", "cumsum", "item", "conj", "round"):
                return Leaf(recv.d)
            if name in ("any", "all", "argmax", "argmin", "argsort", "nonzero"):
                return Leaf(NN)
        return None

    def decide_test(self, test, it):
        from ..common import inline_locals

        def look(e):
            t = src(e)
            if t in self.assume_true:
                return True
            # UtU[i, i] for any index name i: the diagonal of the Gram matrix (assumed non-zero)
            if isinstance(e, ast.Subscript) and isinstance(e.value, ast.Name) and e.value.id == "UtU" and isinstance(e.slice, ast.Tuple) and len(e.slice.elts) == 2 and all(isinstance(x, ast.Name) for x in e.slice.elts) and e.slice.elts[0].id == e.slice.elts[1].id and "UtU[k, k]" in self.assume_true:
                return True
            if t in self.assume_false:
                return False
            # "every mode is declared non-negative": membership of anything in (a local computed from) the
            # nn_modes parameter, however the local is called and whichever polarity the test has
            if "mode in nn_modes" in self.assume_true and isinstance(e, ast.Compare) and len(e.ops) == 1 and isinstance(e.ops[0], (ast.In, ast.NotIn)) and isinstance(e.comparators[0], ast.Name):
                fcur = getattr(it, "cur_function", None)
                if fcur is not None and _computed_from(fcur.node, e.comparators[0].id, "nn_modes"):
                    return isinstance(e.ops[0], ast.In)
            if isinstance(e, ast.UnaryOp) and isinstance(e.op, ast.Not):
                r = look(e.operand)
                return None if r is None else (not r)
            return None

        r = look(test)
        if r is None:
            f = getattr(it, "cur_function", None)
            if f is not None:
                # the assumption is about the value, not about how the test is spelled:
                # `d = UtU[k, k]; if not d: ... continue` is the same test as `if UtU[k, k]:`
                r = look(inline_locals(f.node, test))
        return r

    def join_values(self, a, b, it):
        # (decomposition, errors) joined with decomposition: the decomposition is what matters
        def first(v):
            while isinstance(v, Tup) and v.elts:
                v = v.elts[0]
            return v

        ca, cb = first(a), first(b)
        if isinstance(ca, Obj) and isinstance(cb, Obj) and ca.cls == cb.cls and (isinstance(a, Tup) != isinstance(b, Tup)):
            return it.join(ca, cb)
        return None

    def min_one_iter(self, f, for_stmt):
        return f.qname in AT_LEAST_ONCE

    def refine_env(self, test, truth, env, it, f):
        """`x if all(x >= 0) else abs(x)`: in the true arm x is known to be non-negative"""
        t = test
        if isinstance(t, ast.Call) and call_name(t) == "all" and t.args:
            t = t.args[0]
        if truth and isinstance(t, ast.Compare) and len(t.ops) == 1 and isinstance(t.ops[0], (ast.GtE, ast.Gt)) and isinstance(t.left, ast.Name) and isinstance(t.comparators[0], ast.Constant) and isinstance(t.comparators[0].value, (int, float)) and t.comparators[0].value >= 0 and t.left.id in env:
            v = env[t.left.id]
            if isinstance(v, (Leaf, Sym)):
                env2 = dict(env)
                env2[t.left.id] = Leaf(NN) if isinstance(v, Leaf) else Sym(NN)
                return env2
        return env


# ---------------------------------------------------------------------------------
D = "tensorly.decomposition."
SYM_ANY = Sym(anyd("signed input"))
SYM_NN = Sym(NN)

# (function, {param: value}, assumed-true atoms, slots to check, label)
def configurations():
    cfgs = []
    inits = [("svd", Const("svd")), ("random", Const("random")), ("user (non-negative)", SYM_NN)]
    for iname, iv in inits:
        cfgs.append((D + "_nn_cp.non_negative_parafac", {"init": iv}, (), f"init={iname}"))
        cfgs.append((D + "_nn_cp.non_negative_parafac_hals", {"init": iv}, ("mode in nn_modes",), f"init={iname}, every mode non-negative"))
        cfgs.append((D + "_tucker.non_negative_tucker", {"init": iv}, (), f"init={iname}"))
        for alg in ("fista", "active_set"):
            cfgs.append((D + "_tucker.non_negative_tucker_hals", {"init": iv, "algorithm": Const(alg)}, (), f"init={iname}, algorithm={alg}"))
    for iname, iv in inits[:2]:
        cfgs.append((D + "_cp.initialize_cp", {"init": iv, "non_negative": Const(True)}, (), f"O1 init={iname}"))
        cfgs.append((D + "_tucker.initialize_tucker", {"init": iv, "non_negative": Const(True)}, (), f"O1 init={iname}"))
    for start in (("V", SYM_NN), ("V", Const(None))):
        cfgs.append(("tensorly.solvers.nnls.hals_nnls", {start[0]: start[1], "__defaults__": True}, (("not:V is None",) if start[1] is SYM_NN else ()), f"O3 {start[0]}={'given' if start[1] is SYM_NN else 'None'}"))
    for start in (("x", SYM_NN), ("x", Const(None))):
        asm = ("not:x is None",) if start[1] is SYM_NN else ()
        cfgs.append(("tensorly.solvers.nnls.fista", {start[0]: start[1], "__defaults__": True}, asm, f"O3 {start[0]}={'given' if start[1] is SYM_NN else 'None'}"))
        cfgs.append(("tensorly.solvers.nnls.active_set_nnls", {start[0]: start[1], "__defaults__": True}, asm, f"O3 {start[0]}={'given' if start[1] is SYM_NN else 'None'}"))
    return cfgs


def _leaves(v, path=""):
    if isinstance(v, Obj):
        for k, x in v.fields:
            if k in ("weights", "factors", "core", "projections"):
                yield from _leaves(x, f"{path}.{k}")
    elif isinstance(v, Tup):
        for i, x in enumerate(v.elts):
            yield from _leaves(x, f"{path}[{i}]")
    elif isinstance(v, Lst):
        if v.default is not None:
            yield from _leaves(v.default, f"{path}[*]")
        for i, x in v.over:
            yield from _leaves(x, f"{path}[{i}]")
    elif isinstance(v, (Leaf, Sym)):
        yield path, v.d
    elif isinstance(v, Const):
        yield path, Sign.const_d(None, v.c)


def _decomposition_part(f, v):
    """the value whose sign matters: the wrapper (first component) or the array(s)"""
    if isinstance(v, Tup) and v.elts and isinstance(v.elts[0], (Obj,)):
        return v.elts[0]
    if f.name == "initialize_tucker" and isinstance(v, Tup):
        return v
    return v


def run(ctx: Ctx):
    repo, res = ctx.repo, ctx.res
    res.rule("SIGN-AI", "for every non-negative driver, initialiser and NNLS solver, under every built-in initialisation and a non-negative user initialisation, with signed data, the returned weights / factors / core (solver: the solution) are non-negative in the {non-negative, any} abstraction", floor=20)
    res.rule("O4-PARAFAC2", "with nn_modes given PARAFAC2 delegates the inner updates to non_negative_parafac_hals with nn_modes forwarded, and the line search clips exactly the constrainable modes 0 and 2 before returning extrapolated factors", floor=3)
    res.assume(
        "a user-supplied initialisation is entrywise non-negative (as the property states); the data tensor is arbitrary",
        "the abstraction ignores NaN/inf propagation (0/0)",
        "HALS: the obligation is checked with every mode declared non-negative (the else arm of `mode in nn_modes` is the unconstrained update)",
        "PARAFAC2's initial (SVD) factors are signed: its zero-sweep output is outside this claim",
        "sign table for primitives: abs/clip(lower>=0, no data-dependent upper)/where(x<c,c,x)/zeros/ones/eye/norm/exp/even powers/random_sample produce non-negatives; *,/,+,dot,matmul,reductions preserve; -, solve, lstsq, svd, qr, eigh, sign, log produce signed values",
    )
    sanit = 0
    for qname, over, assume, label in configurations():
        f = repo.func(qname)
        af = tuple(a[4:] for a in assume if a.startswith("not:"))
        dom = Sign(repo, tuple(a for a in assume if not a.startswith("not:")), af)
        it = Interp(repo, dom)
        it.decide_hook = dom.decide_test
        it.min_one_iter = dom.min_one_iter
        args = {}
        use_defaults = over.get("__defaults__", False)
        dflt = f.defaults
        for p in f.all_params:
            if p in over:
                args[p] = over[p]
            elif p == f.kwarg:
                args[p] = Dct(None, Leaf(NN))
            elif use_defaults and p in dflt and isinstance(dflt[p], ast.Constant):
                args[p] = Const(dflt[p].value)
            else:
                args[p] = SYM_ANY
        r = it.call_function(f, args)
        part = _decomposition_part(f, r.ret)
        bad = [(p, d) for p, d in _leaves(part) if d[0] == ANYL]
        sanit += dom.sanitisers
        res.instance("SIGN-AI", f"{qname} [{label}]", sample={"returned": type(part).__name__, "signed_slots": [p for p, _ in bad], "sanitisers_on_path": dom.sanitisers, "summaries": it.summaries})
        for path, d in bad:
            labs = sorted(d[1]) or ["(source not recorded)"]
            ctx.finding("SIGN-AI", f, None, f"`{f.name}` [{label}] can return a value with negative entries in slot `result{path}`: it is not built from clipped / absolute-valued operands by sign-preserving operators. Signed source(s): {'; '.join(labs)}", construct=f"{f.name}[{label}] result{path} <- {labs[0][:110]}", sources=labs)
    res.stats["sanitiser_sites_seen"] = sanit
    parafac2_o4(ctx)


def parafac2_o4(ctx: Ctx):
    repo, res = ctx.repo, ctx.res
    f = repo.func(D + "_parafac2.parafac2")
    # (a) which inner solver updates the CP factors, decided per path: the driver is explored once with
    # `nn_modes is None` true and once false; local helpers are followed through the `def` that is bound on
    # that path (two definitions under an if / else, or two helpers chosen between)
    from ..cfg import build_cfg
    from ..explore import Explorer

    nested = {id(h.node): h for hs in f.nested_all.values() for h in hs}

    def solver_calls(fn_node, depth=0):
        out = []
        for c in ast.walk(fn_node):
            if isinstance(c, ast.Call) and call_name(c) in ("non_negative_parafac_hals", "parafac"):
                out.append(c)
        return out

    class Rule:
        def __init__(self):
            self.seen = []

        def init_state(self):
            return frozenset()

        def transfer(self, node, st, ex):
            a = node.ast
            if a is None:
                return st
            if node.kind == "stmt" and isinstance(a, ast.FunctionDef):
                return frozenset((n, i) for n, i in st if n != a.name) | {(a.name, id(a))}
            if node.kind in ("stmt", "return") and not isinstance(a, (ast.FunctionDef, ast.ClassDef)):
                bound = dict(st)
                for c in ast.walk(a):
                    if isinstance(c, ast.Call) and isinstance(c.func, ast.Name) and c.func.id in bound and node.loop is not None:
                        d = nested.get(bound[c.func.id])
                        if d is not None:
                            for sc in solver_calls(d.node):
                                self.seen.append((d, sc))
                    elif isinstance(c, ast.Call) and call_name(c) in ("non_negative_parafac_hals", "parafac") and node.loop is not None:
                        self.seen.append((f, c))
            return st

    results = {}
    for label, val in (("nn_modes given", False), ("nn_modes None", True)):
        rule = Rule()
        g_ = build_cfg(f.node, f.qname)
        ex = Explorer(g_, rule, entry_valuation={"nn_modes is None": val}, track="all", max_states=400_000).run()
        if ex.truncated:
            raise AnalysisError("O4-PARAFAC2: path exploration of parafac2 exceeded the state budget")
        results[label] = rule.seen
    hals_calls = [(g, c) for g, c in results["nn_modes given"] if call_name(c) == "non_negative_parafac_hals"]
    other_given = [(g, c) for g, c in results["nn_modes given"] if call_name(c) == "parafac"]
    res.instance("O4-PARAFAC2", "parafac2: inner solver under nn_modes", sample={"calls": sorted({src(c)[:80] for _, c in hals_calls})})
    if not hals_calls or other_given:
        ctx.finding("O4-PARAFAC2", f, f.node, "with nn_modes given PARAFAC2 no longer delegates the inner CP updates to non_negative_parafac_hals" + (" on every path (the unconstrained solver is reachable)" if hals_calls else ""), construct="parafac_updates (nn branch)")
    done = set()
    for g, c in hals_calls:
        if id(c) in done:
            continue
        done.add(id(c))
        a = kwarg(c, "nn_modes")
        if not is_name(a, "nn_modes"):
            ctx.finding("O4-PARAFAC2", g, c, f"nn_modes is not forwarded to non_negative_parafac_hals (got {src(a) if a is not None else 'the default'})", construct=f"{src(c)[:80]} nn_modes")
    none_calls = results["nn_modes None"]
    ok_sel = bool(none_calls) and all(call_name(c) == "parafac" for _, c in none_calls) and bool(hals_calls) and not other_given
    res.instance("O4-PARAFAC2", "parafac2: solver selection on `nn_modes is None`", sample={"ok": ok_sel})
    if not ok_sel:
        ctx.finding("O4-PARAFAC2", f, f.node, "the non-negative inner solver is not selected exactly when nn_modes is given", construct="selection of parafac_updates")
    # (b) line_step clips modes 0 and 2
    ls = repo.func(D + "_parafac2._BroThesisLineSearch.line_step")
    clipped = {}
    for s in own_scope_nodes(ls.node):
        if isinstance(s, ast.If):
            t = s.test
            if isinstance(t, ast.Compare) and len(t.ops) == 1 and isinstance(t.ops[0], ast.In) and isinstance(t.left, ast.Constant) and "nn_modes" in src(t.comparators[0]):
                k = t.left.value
                for b in s.body:
                    if isinstance(b, ast.Assign) and isinstance(b.targets[0], ast.Subscript) and isinstance(b.targets[0].slice, ast.Constant) and b.targets[0].slice.value == k and isinstance(b.value, ast.Call) and call_name(b.value) == "clip":
                        v = b.value
                        lo = v.args[1] if len(v.args) > 1 else kwarg(v, "a_min")
                        hi = v.args[2] if len(v.args) > 2 else kwarg(v, "a_max")
                        same = v.args and src(v.args[0]) == src(b.targets[0])
                        clipped[k] = isinstance(lo, ast.Constant) and isinstance(lo.value, (int, float)) and lo.value >= 0 and (hi is None or (isinstance(hi, ast.Constant) and hi.value is None)) and same
    for k in (0, 2):
        res.instance("O4-PARAFAC2", f"line_step: clip of mode {k}", sample={"ok": clipped.get(k, False)})
        if not clipped.get(k, False):
            ctx.finding("O4-PARAFAC2", ls, ls.node, f"the line-search extrapolation of mode {k} is not clipped at a non-negative lower bound under `{k} in self.nn_modes`: an accepted jump can return negative entries on a non-negative mode", construct=f"line_step clip mode {k}")
    # the clipped list is what is returned on acceptance
    rets = [r for r in own_scope_nodes(ls.node) if isinstance(r, ast.Return)]
    names = {src(r.value.elts[0]) for r in rets if isinstance(r.value, ast.Tuple) and r.value.elts}
    res.instance("O4-PARAFAC2", "line_step: returned factor lists", sample={"returns": sorted(names)})
