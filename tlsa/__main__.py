"""Command line: python -m tlsa <PROPERTY-ID> [--tier quick|thorough] | --selfcheck | --replay <file>"""

from __future__ import annotations

import argparse
import importlib
import json
import os
import sys
import time
import traceback
import warnings

warnings.simplefilter("ignore", SyntaxWarning)

from .common import Ctx
from .model import AnalysisError, Repo
from .report import Result, finish

RULESETS = {
    "C01": "c01",
    "C02": "c02",
    "C03": "c03",
    "C04": "c04",
    "C05": "c05",
    "C06": "c06",
    "C07": "c07",
    "C08": "c08",
    "C09": "c09",
    "C10": "c10",
    "C11": "c11",
    "C12": "c12",
    "C13": "c13",
    "C14": "c14",
    "C15": "c15",
    "C16": "c16",
    "C17": "c17",
    "C18": "c18",
    "C19": "c19",
    "C20": "c20",
}


def run_property(prop: str, tier: str, seed: int, overlay=None, write=True, quiet=False) -> tuple:
    """Analyse one property; returns (exit_code, Result)."""
    t0 = time.time()
    res = Result(prop)
    try:
        repo = Repo(overlay=overlay)
        mod = importlib.import_module(f".rules.{RULESETS[prop]}", __package__)
        ctx = Ctx(repo, res, tier, seed)
        mod.run(ctx)
        if prop != "C17":  # C17 is about process-wide state; every other property is an input / output statement
            from .rules.state import history_free

            ctx.guarded(history_free, ctx, prop)
        res.stats.setdefault("files_parsed", len(repo.modules))
        res.stats.setdefault("functions_in_scope", len(repo.functions))
    except AnalysisError as e:
        res.error(str(e))
    except Exception as e:  # a crash of the checker is never a verdict
        tb = traceback.format_exc(limit=6)
        res.error(f"checker crashed: {e!r} :: {tb.splitlines()[-3:]}")
        if os.environ.get("TLSA_DEBUG"):
            traceback.print_exc()
    if quiet:
        import contextlib
        import io

        buf = io.StringIO()
        with contextlib.redirect_stdout(buf):
            code = finish(res, tier, seed, t0, write=write)
        return code, res
    extra = None
    if tier == "thorough" and not res.errors:
        try:
            from . import selftest

            extra = selftest.run_for(prop, seed, res)
        except AnalysisError as e:
            res.error(str(e))
        except Exception as e:
            res.error(f"self-test crashed: {e!r}")
            if os.environ.get("TLSA_DEBUG"):
                traceback.print_exc()
    code = finish(res, tier, seed, t0, extra_cov=extra, write=write)
    return code, res


def main(argv=None):
    ap = argparse.ArgumentParser(prog="tlsa")
    ap.add_argument("prop", nargs="?")
    ap.add_argument("--tier", default=os.environ.get("VERIF_TIER", "quick"), choices=["quick", "thorough"])
    ap.add_argument("--selfcheck", action="store_true")
    ap.add_argument("--replay")
    a = ap.parse_args(argv)
    try:
        seed = int(os.environ.get("VERIF_SEED", "0"))
    except ValueError:
        seed = 0
    if a.selfcheck:
        return selfcheck()
    if a.replay:
        with open(a.replay) as fh:
            d = json.load(fh)
        print(json.dumps(d, indent=1))
        prop = d.get("property")
        code, res = run_property(prop, "quick", seed, write=False)
        still = [f for f in res.findings if f.key == d.get("key")]
        print(f"replay: finding {'STILL PRESENT' if still else 'no longer present'} in the current tree")
        return 1 if still else 0
    if not a.prop or a.prop not in RULESETS:
        print(f"usage: tlsa <{'|'.join(RULESETS)}> [--tier quick|thorough]")
        return 2
    code, _ = run_property(a.prop, a.tier, seed)
    return code


def selfcheck():
    t0 = time.time()
    try:
        # the cross-check compares the model's name facts with `symtable` on the source as written, so it
        # runs on the un-normalised parse; the normalised model (lambda lifting, loop / dispatch normal
        # forms) must then build as well
        os.environ["TLSA_NO_LIFT"] = "1"
        repo = Repo()
        from .model import symtable_crosscheck

        probs = symtable_crosscheck(repo)
        os.environ.pop("TLSA_NO_LIFT", None)
        normalised = Repo()
        if len(normalised.functions) < len(repo.functions):
            probs.append(f"the normalised model lost functions ({len(normalised.functions)} < {len(repo.functions)})")
        if probs:
            for p in probs[:20]:
                print("ANALYSIS-ERROR selfcheck", p)
            return 2
        for name in ("MANIFEST.schema.json", "EVIDENCE.schema.json"):
            p = os.path.join("/root/.vp", name)
            if os.path.exists(p):
                json.load(open(p))
        print(f"selfcheck ok: {repo.stats()} in {time.time()-t0:.2f}s")
        return 0
    except Exception as e:
        print("ANALYSIS-ERROR selfcheck", repr(e))
        return 2


if __name__ == "__main__":
    try:
        rc = main()
    except SystemExit:
        raise
    except BaseException as e:  # noqa
        print(f"ANALYSIS-ERROR unhandled {e!r}")
        rc = 2
    sys.stdout.flush()
    sys.exit(rc)
