"""Findings, evidence files, known-findings handling and exit codes (DESIGN §2.6)."""

from __future__ import annotations

import ast
import hashlib
import json
import os
import re
import time
from dataclasses import dataclass, field
from typing import Dict, List, Optional

VERIF = os.path.dirname(os.path.dirname(os.path.abspath(__file__)))
EVIDENCE_DIR = os.path.join(VERIF, "evidence")
REPLAY_DIR = os.path.join(VERIF, "replay")
KNOWN_FILE = os.path.join(VERIF, "known_findings.json")


def norm_src(node_or_text) -> str:
    """Line-independent, whitespace-normalised text of a construct."""
    if isinstance(node_or_text, ast.AST):
        try:
            t = ast.unparse(node_or_text)
        except Exception:
            t = repr(node_or_text)
    else:
        t = str(node_or_text)
    t = re.sub(r"\s+", " ", t).strip()
    return t[:160]


@dataclass
class Finding:
    rule: str
    function: str  # module-qualified function (or module / class) the construct lives in
    construct: str  # normalised construct text
    message: str
    file: str = ""
    line: int = 0
    path: Optional[list] = None
    details: Dict[str, object] = field(default_factory=dict)

    @property
    def key(self) -> str:
        return f"{self.rule}|{self.function}|{self.construct}"

    def to_json(self):
        return {
            "rule": self.rule,
            "function": self.function,
            "construct": self.construct,
            "key": self.key,
            "message": self.message,
            "file": self.file,
            "line": self.line,
            "path": self.path,
            "details": self.details,
        }


class Result:
    """Collected outcome of the rules of one property."""

    def __init__(self, prop: str):
        self.prop = prop
        self.findings: List[Finding] = []
        self.instances: Dict[str, int] = {}  # rule -> instances checked
        self.nontrivial: Dict[str, set] = {}  # rule -> distinct nontrivial instance keys
        self.samples: List[dict] = []
        self.rules: Dict[str, str] = {}  # rule -> what it decides
        self.assumptions: List[str] = []
        self.stats: Dict[str, object] = {}
        self.floors: Dict[str, int] = {}
        self.errors: List[str] = []

    def rule(self, name, text, floor=0):
        self.rules[name] = text
        self.instances.setdefault(name, 0)
        self.nontrivial.setdefault(name, set())
        if floor:
            self.floors[name] = floor

    def instance(self, rule, key, nontrivial=True, sample=None):
        self.instances[rule] = self.instances.get(rule, 0) + 1
        if nontrivial:
            self.nontrivial.setdefault(rule, set()).add(key)
        if sample is not None and len([s for s in self.samples if s.get("rule") == rule]) < 4:
            d = {"rule": rule, "instance": key}
            d.update(sample)
            self.samples.append(d)

    def add(self, f: Finding):
        for g in self.findings:
            if g.key == f.key:
                return
        self.findings.append(f)

    def assume(self, *texts):
        for t in texts:
            if t not in self.assumptions:
                self.assumptions.append(t)

    def error(self, msg):
        self.errors.append(msg)

    def check_floors(self):
        """The floor of a rule is the number of instances confirmed by hand on the tree it was written for.  It
        guards against a rule that matches nothing (and so passes for ever); it is not a statement about the
        code.  Behaviour-preserving edits merge sites (two branch stores into one, two returns into one), so
        the count may fall short of the floor by up to a quarter (at least one) before the run is refused; an
        anchor that vanishes altogether is refused by the rule itself."""
        for r, fl in self.floors.items():
            fl = max(1, fl - max(1, fl // 4))
            got = self.instances.get(r, 0)
            if got < fl:
                self.errors.append(
                    f"rule {r}: only {got} instance(s) found, frozen floor is {fl} -- anchors vanished, cannot decide"
                )


def load_known() -> dict:
    if not os.path.exists(KNOWN_FILE):
        return {"known": [], "fixed": []}
    with open(KNOWN_FILE) as fh:
        return json.load(fh)


def finish(res: Result, tier: str, seed: int, t0: float, extra_cov: dict = None, write=True) -> int:
    """Print the verdict lines, write evidence and replay files, return the exit code."""
    res.check_floors()
    known = load_known()
    known_keys = {(k["property"], k["key"]): k for k in known.get("known", [])}
    code = 0
    new, listed = [], []
    for f in res.findings:
        if (res.prop, f.key) in known_keys:
            listed.append(f)
        else:
            new.append(f)
    if res.errors:
        for e in res.errors:
            print(f"ANALYSIS-ERROR property={res.prop} {e}")
        code = 2
    for f in listed:
        k = known_keys[(res.prop, f.key)]
        print(f"KNOWN-FINDING: property={res.prop} {k.get('what', f.message)} [{f.key}]")
    replays = []
    if new:
        code = 1  # a definite violation outranks "another rule could not be decided"
    for f in new:
        h = hashlib.sha1(f.key.encode()).hexdigest()[:12]
        rp = os.path.join(REPLAY_DIR, res.prop, f"{f.rule}-{h}.json")
        if write:
            os.makedirs(os.path.dirname(rp), exist_ok=True)
            with open(rp, "w") as fh:
                json.dump({"property": res.prop, **f.to_json()}, fh, indent=1, default=str)
        replays.append(rp)
        print(f"{f.file}:{f.line}: [{f.rule}] {f.function}: {f.message}")
        print(f"    construct: {f.construct}")
        print(f"VIOLATION property={res.prop} replay={rp}")
    total = sum(res.instances.values())
    nontriv = sum(len(v) for v in res.nontrivial.values())
    wall = time.time() - t0
    cov = {
        "explanation": "static analysis of /repo's current source (ast; nothing imported or run). Rules: "
        + " | ".join(f"{r}: {t}" for r, t in res.rules.items()),
        "evaluations": total,
        "distinct_nontrivial": nontriv,
        "rule": "one evaluation = one rule instance (call site, store, return, path-explored driver, table row) found by the checker in the current tree; an instance is non-trivial when the rule had an obligation to discharge there; distinct by (rule, function, construct)",
        "obligations": total,
        "discharged": total - len(res.findings),
        "samples": res.samples[:24] or [{"note": "no instance"}],
        "instances_per_rule": dict(res.instances),
        "nontrivial_per_rule": {r: len(v) for r, v in res.nontrivial.items()},
        "floors": dict(res.floors),
        "exhaustive": True,
        "findings_new": [f.to_json() for f in new][:50],
        "findings_known": [f.key for f in listed],
    }
    cov.update(res.stats)
    if extra_cov:
        cov.update(extra_cov)
    ev = {
        "property_id": res.prop,
        "tier": tier,
        "seed": seed,
        "level": "other",
        "coverage": cov,
        "assumptions": res.assumptions,
        "wall_s": round(wall, 3),
        "violations": len(new),
    }
    if code == 2:
        ev["coverage"]["analysis_errors"] = res.errors
    if write:
        os.makedirs(EVIDENCE_DIR, exist_ok=True)
        with open(os.path.join(EVIDENCE_DIR, f"{res.prop}.json"), "w") as fh:
            json.dump(ev, fh, indent=1, default=str)
    print(
        f"{res.prop}: tier={tier} rules={len(res.rules)} instances={total} nontrivial={nontriv} "
        f"new_findings={len(new)} known={len(listed)} errors={len(res.errors)} wall={wall:.2f}s"
    )
    return code
