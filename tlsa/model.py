"""Repository model: modules, functions, classes, import/registry resolver.

The model is built from source text only.  ``Repo(root, overlay)`` parses every
in-scope file below ``root/tensorly``; ``overlay`` maps a repo-relative path to
replacement source text (used by the self-test to analyse seeded variants
without ever writing them to disk).
"""

from __future__ import annotations

import ast
import builtins
import os
import symtable
from dataclasses import dataclass, field
from typing import Dict, List, Optional, Tuple

REPO_ROOT = os.environ.get("TLSA_REPO", "/repo")
PKG = "tensorly"

# ---------------------------------------------------------------------------------
# scope (DESIGN §2.1)
# ---------------------------------------------------------------------------------
EXCLUDED_DIR_PARTS = ("tests", "datasets")
EXCLUDED_PREFIXES = ("tensorly/contrib/sparse/",)
EXCLUDED_FILES = {
    "tensorly/backend/pytorch_backend.py",
    "tensorly/backend/tensorflow_backend.py",
    "tensorly/backend/cupy_backend.py",
    "tensorly/backend/jax_backend.py",
    "tensorly/backend/paddle_backend.py",
    "tensorly/conftest.py",
}


class AnalysisError(Exception):
    """The analysis itself cannot run (vanished anchor, parse error, ...)."""


def in_scope(rel: str) -> bool:
    if not rel.endswith(".py"):
        return False
    if rel in EXCLUDED_FILES:
        return False
    parts = rel.split("/")
    if any(p in EXCLUDED_DIR_PARTS for p in parts[:-1]):
        return False
    if any(rel.startswith(p) for p in EXCLUDED_PREFIXES):
        return False
    return True


# ---------------------------------------------------------------------------------
# data classes
# ---------------------------------------------------------------------------------
@dataclass(eq=False)
class Module:
    name: str
    rel: str
    src: str
    tree: ast.Module
    is_pkg: bool
    bindings: Dict[str, tuple] = field(default_factory=dict)
    functions: Dict[str, "FunctionInfo"] = field(default_factory=dict)
    classes: Dict[str, "ClassInfo"] = field(default_factory=dict)

    def __repr__(self):
        return f"<Module {self.name}>"


@dataclass(eq=False)
class ClassInfo:
    qname: str
    name: str
    module: Module
    node: ast.ClassDef
    methods: Dict[str, "FunctionInfo"] = field(default_factory=dict)
    attrs: Dict[str, ast.AST] = field(default_factory=dict)
    bases: List["ClassInfo"] = field(default_factory=list)
    base_exprs: List[ast.AST] = field(default_factory=list)

    def __repr__(self):
        return f"<Class {self.qname}>"

    def mro(self) -> List["ClassInfo"]:
        out, seen = [], set()

        def walk(c):
            if id(c) in seen:
                return
            seen.add(id(c))
            out.append(c)
            for b in c.bases:
                walk(b)

        walk(self)
        return out

    def find_method(self, name) -> Optional["FunctionInfo"]:
        for c in self.mro():
            if name in c.methods:
                return c.methods[name]
        return None

    def find_attr(self, name) -> Optional[Tuple["ClassInfo", ast.AST]]:
        for c in self.mro():
            if name in c.attrs:
                return c, c.attrs[name]
        return None


@dataclass(eq=False)
class FunctionInfo:
    qname: str
    name: str
    module: Module
    node: ast.AST  # FunctionDef | AsyncFunctionDef | Lambda
    cls: Optional[ClassInfo] = None
    parent: Optional["FunctionInfo"] = None
    nested: Dict[str, "FunctionInfo"] = field(default_factory=dict)
    nested_all: Dict[str, List["FunctionInfo"]] = field(default_factory=dict)
    decorators: List[str] = field(default_factory=list)
    _locals: Optional[set] = None

    def __repr__(self):
        return f"<Func {self.qname}>"

    # -- signature -------------------------------------------------------------
    @property
    def args(self) -> ast.arguments:
        return self.node.args

    @property
    def pos_params(self) -> List[str]:
        a = self.args
        return [x.arg for x in a.posonlyargs + a.args]

    @property
    def kwonly_params(self) -> List[str]:
        return [x.arg for x in self.args.kwonlyargs]

    @property
    def vararg(self) -> Optional[str]:
        return self.args.vararg.arg if self.args.vararg else None

    @property
    def kwarg(self) -> Optional[str]:
        return self.args.kwarg.arg if self.args.kwarg else None

    @property
    def all_params(self) -> List[str]:
        out = self.pos_params + self.kwonly_params
        if self.vararg:
            out.append(self.vararg)
        if self.kwarg:
            out.append(self.kwarg)
        return out

    @property
    def defaults(self) -> Dict[str, ast.AST]:
        a = self.args
        pos = a.posonlyargs + a.args
        out = {}
        for p, d in zip(pos[len(pos) - len(a.defaults):], a.defaults):
            out[p.arg] = d
        for p, d in zip(a.kwonlyargs, a.kw_defaults):
            if d is not None:
                out[p.arg] = d
        return out

    @property
    def is_static(self):
        return "staticmethod" in self.decorators

    @property
    def is_classmethod(self):
        return "classmethod" in self.decorators

    @property
    def is_property(self):
        return "property" in self.decorators

    @property
    def binds_first(self) -> bool:
        """True when the first positional parameter is the implicit self/cls."""
        return self.cls is not None and not self.is_static and self.parent is None

    @property
    def call_params(self) -> List[str]:
        p = self.pos_params
        return p[1:] if self.binds_first and p else p

    @property
    def self_name(self) -> Optional[str]:
        if self.binds_first and self.pos_params:
            return self.pos_params[0]
        return None

    @property
    def is_public(self) -> bool:
        if self.parent is not None:
            return False
        if self.cls is not None:
            if self.cls.name.startswith("_"):
                return False
            return not self.name.startswith("_") or self.name in (
                "__init__",
                "__call__",
                "__getitem__",
                "__setitem__",
                "__iter__",
                "__len__",
            )
        return not self.name.startswith("_")

    @property
    def body(self):
        if isinstance(self.node, ast.Lambda):
            return [ast.Return(value=self.node.body)]
        return self.node.body

    @property
    def lineno(self):
        return self.node.lineno

    def local_names(self) -> set:
        """Names bound in this function's own scope (params + assigned)."""
        if self._locals is None:
            self._locals = set(self.all_params) | _assigned_names(self.node)
        return self._locals


def _assigned_names(fnode) -> set:
    """Names bound by statements of ``fnode``'s own scope (not nested scopes)."""
    out = set()
    globals_ = set()

    def targets(t):
        if isinstance(t, ast.Name):
            out.add(t.id)
        elif isinstance(t, (ast.Tuple, ast.List)):
            for e in t.elts:
                targets(e)
        elif isinstance(t, ast.Starred):
            targets(t.value)

    def walk(n, top=False):
        if not top and isinstance(
            n, (ast.FunctionDef, ast.AsyncFunctionDef, ast.ClassDef)
        ):
            out.add(n.name)
            return
        if isinstance(n, ast.Lambda) and not top:
            return
        if isinstance(n, (ast.ListComp, ast.SetComp, ast.DictComp, ast.GeneratorExp)):
            # own scope, except the first iterable -- only NamedExpr leaks
            for c in ast.walk(n):
                if isinstance(c, ast.NamedExpr):
                    targets(c.target)
            return
        if isinstance(n, ast.Assign):
            for t in n.targets:
                targets(t)
        elif isinstance(n, (ast.AugAssign, ast.AnnAssign)):
            targets(n.target)
        elif isinstance(n, (ast.For, ast.AsyncFor)):
            targets(n.target)
        elif isinstance(n, (ast.With, ast.AsyncWith)):
            for it in n.items:
                if it.optional_vars is not None:
                    targets(it.optional_vars)
        elif isinstance(n, ast.ExceptHandler):
            if n.name:
                out.add(n.name)
        elif isinstance(n, (ast.Import, ast.ImportFrom)):
            for a in n.names:
                out.add((a.asname or a.name).split(".")[0])
        elif isinstance(n, ast.NamedExpr):
            targets(n.target)
        elif isinstance(n, ast.Global):
            globals_.update(n.names)
        for c in ast.iter_child_nodes(n):
            walk(c)

    if isinstance(fnode, ast.Lambda):
        return out
    for st in fnode.body:
        walk(st)
    return out - globals_


# ---------------------------------------------------------------------------------
# entities returned by the resolver
# ---------------------------------------------------------------------------------
@dataclass(frozen=True)
class Ent:
    kind: str  # func | class | module | backend | tenalg | ext | builtin | var | selfattr | bmethod
    value: object = None
    extra: object = None

    def __repr__(self):
        return f"Ent({self.kind}, {self.value!r})"


@dataclass
class CallTarget:
    kind: str  # repo | backend | ext | builtin | method | local | unknown | class
    funcs: List[FunctionInfo] = field(default_factory=list)
    name: str = ""
    bound: bool = False  # first parameter is implicit (self/cls)
    receiver: Optional[ast.AST] = None
    cls: Optional[ClassInfo] = None
    cha: bool = False

    def __repr__(self):
        if self.kind == "repo":
            return f"<repo {[f.qname for f in self.funcs]}>"
        return f"<{self.kind} {self.name}>"


BUILTINS = set(dir(builtins))

COMMON_METHODS = (
    set(dir(list)) | set(dir(dict)) | set(dir(str)) | set(dir(set)) | set(dir(tuple))
    | {
        "reshape", "ravel", "transpose", "squeeze", "view", "astype", "mean", "sum", "prod", "max", "min",
        "tolist", "any", "all", "dot", "flatten", "fill", "item", "argmax", "argmin", "clip", "conj",
        "cumsum", "std", "var", "round", "nonzero", "repeat", "take", "put", "swapaxes", "trace",
        "random_sample", "randn", "normal", "randint", "choice", "rand", "gamma", "uniform", "permutation",
        "shuffle", "seed", "get_state", "set_state", "warn", "local", "get", "fit", "transform",
        "predict", "fit_transform", "to_tensor", "to_vec", "to_unfolded", "norm", "normalize", "mode_dot",
    }
)


# ---------------------------------------------------------------------------------
# repository
# ---------------------------------------------------------------------------------
class Repo:
    def __init__(self, root: str = None, overlay: Dict[str, str] = None):
        self.root = root or REPO_ROOT
        self.overlay = overlay or {}
        self.modules: Dict[str, Module] = {}
        self.by_rel: Dict[str, Module] = {}
        self.functions: Dict[str, FunctionInfo] = {}
        self.classes: Dict[str, ClassInfo] = {}
        self._func_of_node: Dict[int, FunctionInfo] = {}
        self._rc_cache = {}
        self._li_cache = {}
        self._load()
        self._bind()
        self._special()

    # -- loading ---------------------------------------------------------------
    def _load(self):
        base = os.path.join(self.root, PKG)
        if not os.path.isdir(base):
            raise AnalysisError(f"no package directory {base}")
        rels = []
        for dp, dn, fn in os.walk(base):
            dn.sort()
            for f in sorted(fn):
                rel = os.path.relpath(os.path.join(dp, f), self.root)
                if in_scope(rel):
                    rels.append(rel)
        for rel in self.overlay:
            if rel not in rels and in_scope(rel):
                rels.append(rel)
        for rel in rels:
            if rel in self.overlay:
                src = self.overlay[rel]
            else:
                with open(os.path.join(self.root, rel), encoding="utf-8") as fh:
                    src = fh.read()
            try:
                tree = ast.parse(src, filename=rel)
            except SyntaxError as e:
                raise AnalysisError(f"cannot parse {rel}: {e}")
            if os.environ.get("TLSA_NO_LIFT") != "1":
                from .normalise import append_loop_to_comprehension, append_readback, build_literal_dict, counted_while_to_for, expand_dict_dispatch, expand_keyword_splat, fill_loop_to_dict, filter_map_to_comprehension, fold_dict_lookup, inline_named_conditions, lambda_lift, lookup_else_default, search_loop_to_membership, select_callable, unpack_by_attribute, unpack_literal_comprehension, unroll_table_loops

                append_readback(tree)
                filter_map_to_comprehension(tree)
                lookup_else_default(tree)
                select_callable(tree)
                inline_named_conditions(tree)
                fill_loop_to_dict(tree)
                build_literal_dict(tree)
                expand_keyword_splat(tree)
                unpack_by_attribute(tree)
                unpack_literal_comprehension(tree)
                search_loop_to_membership(tree)
                fold_dict_lookup(tree)
                expand_dict_dispatch(tree)
                counted_while_to_for(tree)
                append_loop_to_comprehension(tree)
                fill_loop_to_dict(tree)
                unroll_table_loops(tree)
                lambda_lift(tree)
            is_pkg = rel.endswith("/__init__.py")
            name = rel[:-3].replace("/", ".")
            if is_pkg:
                name = name[: -len(".__init__")]
            m = Module(name, rel, src, tree, is_pkg)
            self.modules[name] = m
            self.by_rel[rel] = m

    def module(self, name) -> Module:
        try:
            return self.modules[name]
        except KeyError:
            raise AnalysisError(f"anchor module vanished: {name}")

    def func(self, qname) -> FunctionInfo:
        try:
            return self.functions[qname]
        except KeyError:
            raise AnalysisError(f"anchor function vanished: {qname}")

    def cls(self, qname) -> ClassInfo:
        try:
            return self.classes[qname]
        except KeyError:
            raise AnalysisError(f"anchor class vanished: {qname}")

    def has_func(self, qname) -> bool:
        return qname in self.functions

    # -- bindings ----------------------------------------------------------------
    def _abs_import(self, m: Module, level: int, mod: Optional[str]) -> str:
        if level == 0:
            return mod or ""
        pkg = m.name if m.is_pkg else m.name.rsplit(".", 1)[0]
        parts = pkg.split(".")
        if level > 1:
            parts = parts[: len(parts) - (level - 1)]
        base = ".".join(parts)
        return f"{base}.{mod}" if mod else base

    def _collect_function(self, m, node, cls=None, parent=None, prefix=""):
        qn = f"{prefix}.{node.name}"
        decos = []
        for d in node.decorator_list:
            if isinstance(d, ast.Name):
                decos.append(d.id)
            elif isinstance(d, ast.Attribute):
                decos.append(d.attr)
            elif isinstance(d, ast.Call):
                f = d.func
                decos.append(f.id if isinstance(f, ast.Name) else getattr(f, "attr", "?"))
        fi = FunctionInfo(qn, node.name, m, node, cls=cls, parent=parent, decorators=decos)
        if qn in self.functions:
            # same name defined twice in one scope (e.g. a closure defined in both arms
            # of an if): keep every definition addressable
            k = 2
            while f"{qn}#{k}" in self.functions:
                k += 1
            fi.qname = f"{qn}#{k}"
        self.functions[fi.qname] = fi
        self._func_of_node[id(node)] = fi
        # nested defs (own scope only)
        for sub in _own_scope_nodes(node):
            if isinstance(sub, (ast.FunctionDef, ast.AsyncFunctionDef)):
                nf = self._collect_function(
                    m, sub, cls=None, parent=fi, prefix=f"{qn}.<locals>"
                )
                fi.nested[sub.name] = nf
                fi.nested_all.setdefault(sub.name, []).append(nf)
        return fi

    def _collect_class(self, m, node, prefix):
        qn = f"{prefix}.{node.name}"
        ci = ClassInfo(qn, node.name, m, node, base_exprs=list(node.bases))
        self.classes[qn] = ci
        for st in node.body:
            if isinstance(st, (ast.FunctionDef, ast.AsyncFunctionDef)):
                fi = self._collect_function(m, st, cls=ci, prefix=qn)
                ci.methods[st.name] = fi
            elif isinstance(st, ast.Assign):
                for t in st.targets:
                    if isinstance(t, ast.Name):
                        ci.attrs[t.id] = st.value
            elif isinstance(st, ast.AnnAssign) and isinstance(st.target, ast.Name):
                if st.value is not None:
                    ci.attrs[st.target.id] = st.value
        return ci

    def _bind(self):
        for m in self.modules.values():
            self._bind_stmts(m, m.tree.body)
        # star imports, class bases (second pass: everything is collected)
        for m in self.modules.values():
            for st in ast.walk(m.tree):
                if isinstance(st, ast.ImportFrom) and any(a.name == "*" for a in st.names):
                    src = self._abs_import(m, st.level, st.module)
                    sm = self.modules.get(src)
                    if sm is not None:
                        for k, v in sm.bindings.items():
                            if not k.startswith("_"):
                                m.bindings.setdefault(k, v)
        for ci in self.classes.values():
            for b in ci.base_exprs:
                e = self.resolve_in_module(ci.module, b)
                if e is not None and e.kind == "class":
                    ci.bases.append(e.value)

    def _bind_stmts(self, m: Module, stmts):
        for st in stmts:
            if isinstance(st, (ast.FunctionDef, ast.AsyncFunctionDef)):
                fi = self._collect_function(m, st, prefix=m.name)
                m.functions[st.name] = fi
                m.bindings[st.name] = ("func", fi)
            elif isinstance(st, ast.ClassDef):
                ci = self._collect_class(m, st, m.name)
                m.classes[st.name] = ci
                m.bindings[st.name] = ("class", ci)
            elif isinstance(st, ast.Import):
                for a in st.names:
                    if a.asname:
                        m.bindings[a.asname] = ("module", a.name)
                    else:
                        top = a.name.split(".")[0]
                        m.bindings[top] = ("module", top)
            elif isinstance(st, ast.ImportFrom):
                src = self._abs_import(m, st.level, st.module)
                for a in st.names:
                    if a.name == "*":
                        continue
                    m.bindings[a.asname or a.name] = ("from", src, a.name)
            elif isinstance(st, ast.Assign):
                for t in st.targets:
                    if isinstance(t, ast.Name):
                        m.bindings[t.id] = ("var", st.value)
            elif isinstance(st, ast.AnnAssign) and isinstance(st.target, ast.Name):
                m.bindings[st.target.id] = ("var", st.value)
            elif isinstance(st, (ast.If, ast.Try)):
                # conditional imports / definitions at module level
                for fld in ("body", "orelse", "finalbody"):
                    self._bind_stmts(m, getattr(st, fld, []) or [])
                for h in getattr(st, "handlers", []):
                    self._bind_stmts(m, h.body)

    # -- special registries: backend function names, tenalg dispatch ---------------
    def _special(self):
        self.backend_names = set()
        self.backend_attrs = set()
        self.tenalg_names: List[str] = []
        bm = self.modules.get("tensorly.backend")
        if bm is None:
            raise AnalysisError("anchor module vanished: tensorly.backend")
        core = self.modules.get("tensorly.backend.core")
        if core is None:
            raise AnalysisError("anchor module vanished: tensorly.backend.core")
        self.backend_array = self._const_str_list(core, core.bindings.get("backend_array"))
        bmc = bm.classes.get("BackendManager")
        if bmc is None:
            raise AnalysisError("anchor class vanished: tensorly.backend.BackendManager")
        self.backend_names = set(self._class_str_list(bmc, "_functions")) | set(
            self.backend_array
        )
        self.backend_attrs = set(self._class_str_list(bmc, "_attributes"))
        # methods defined on the Backend base class are callable through tl.<name> too
        bcls = core.classes.get("Backend")
        if bcls is None:
            raise AnalysisError("anchor class vanished: tensorly.backend.core.Backend")
        self.backend_class = bcls
        tm = self.modules.get("tensorly.tenalg")
        if tm is None:
            raise AnalysisError("anchor module vanished: tensorly.tenalg")
        tmc = tm.classes.get("TenalgBackendManager")
        if tmc is None:
            raise AnalysisError("anchor class vanished: TenalgBackendManager")
        self.tenalg_names = self._class_str_list(tmc, "_functions")
        self.tenalg_impls: Dict[str, Dict[str, FunctionInfo]] = {}
        self.tenalg_registered: Dict[str, Dict[str, ast.AST]] = {}
        for be in ("core", "einsum"):
            mod = self.modules.get(f"tensorly.tenalg.{be}_tenalg")
            if mod is None:
                raise AnalysisError(f"anchor module vanished: tensorly.tenalg.{be}_tenalg")
            reg, regn = {}, {}
            for st in mod.tree.body:
                if (
                    isinstance(st, ast.Expr)
                    and isinstance(st.value, ast.Call)
                    and isinstance(st.value.func, ast.Attribute)
                    and st.value.func.attr == "register_method"
                    and len(st.value.args) == 2
                    and isinstance(st.value.args[0], ast.Constant)
                ):
                    nm = st.value.args[0].value
                    regn[nm] = st.value.args[1]
                    e = self.resolve_in_module(mod, st.value.args[1])
                    if e is not None and e.kind == "func":
                        reg[nm] = e.value
            self.tenalg_impls[be] = reg
            self.tenalg_registered[be] = regn

    def _const_str_list(self, m, binding) -> List[str]:
        if not binding or binding[0] != "var":
            return []
        return self._eval_str_list(m, binding[1], None)

    def _class_str_list(self, ci: ClassInfo, attr) -> List[str]:
        v = ci.attrs.get(attr)
        if v is None:
            raise AnalysisError(f"anchor attribute vanished: {ci.qname}.{attr}")
        return self._eval_str_list(ci.module, v, ci)

    def _eval_str_list(self, m, node, ci) -> List[str]:
        if isinstance(node, (ast.List, ast.Tuple)):
            out = []
            for e in node.elts:
                if isinstance(e, ast.Constant) and isinstance(e.value, str):
                    out.append(e.value)
            return out
        if isinstance(node, ast.BinOp) and isinstance(node.op, ast.Add):
            return self._eval_str_list(m, node.left, ci) + self._eval_str_list(
                m, node.right, ci
            )
        if isinstance(node, ast.Name):
            ent = self.resolve_in_module(m, node)
            if ent is not None and ent.kind == "var":
                return self._eval_str_list(ent.extra, ent.value, None)
        return []

    # -- resolution -----------------------------------------------------------------
    def resolve_binding(self, m: Module, name: str, _depth=0) -> Optional[Ent]:
        if _depth > 12:
            return None
        b = m.bindings.get(name)
        if b is None:
            return None
        k = b[0]
        if k == "func":
            return Ent("func", b[1])
        if k == "class":
            return Ent("class", b[1])
        if k == "var":
            return Ent("var", b[1], m)
        if k == "module":
            return self._module_ent(b[1])
        if k == "from":
            src, attr = b[1], b[2]
            sm = self.modules.get(src)
            if sm is None:
                if src.split(".")[0] == PKG:
                    return None  # out-of-scope repo module (e.g. datasets)
                return Ent("ext", f"{src}.{attr}")
            return self.module_attr(sm, attr, _depth + 1)
        return None

    def _module_ent(self, dotted: str) -> Optional[Ent]:
        if dotted in self.modules:
            return Ent("module", self.modules[dotted])
        if dotted.split(".")[0] == PKG:
            return None
        return Ent("ext", dotted)

    def module_attr(self, m: Module, attr: str, _depth=0) -> Optional[Ent]:
        """Attribute ``attr`` of module object ``m`` (import semantics + dispatch)."""
        if _depth > 12:
            return None
        # dispatched names shadow nothing: they are set on the manager class
        if m.name == "tensorly.tenalg" and attr in self.tenalg_names:
            return Ent("tenalg", attr)
        if attr in m.bindings:
            e = self.resolve_binding(m, attr, _depth + 1)
            if e is not None:
                return e
        if m.is_pkg and f"{m.name}.{attr}" in self.modules:
            return Ent("module", self.modules[f"{m.name}.{attr}"])
        if m.name in ("tensorly.backend", "tensorly"):
            if attr in self.backend_names:
                return Ent("backend", attr)
            if attr in self.backend_attrs:
                return Ent("backend", attr)
            bm = self.modules["tensorly.backend"].classes["BackendManager"]
            f = bm.find_method(attr)
            if f is not None:
                return Ent("func", f, "bound")
            # Backend base-class helpers reachable through __getattr__
            f = self.backend_class.find_method(attr)
            if f is not None and m.name == "tensorly.backend":
                return Ent("backend", attr)
        if m.name == "tensorly.tenalg":
            tm = m.classes["TenalgBackendManager"]
            f = tm.find_method(attr)
            if f is not None:
                return Ent("func", f, "bound")
        return None

    def resolve_in_module(self, m: Module, expr: ast.AST) -> Optional[Ent]:
        if isinstance(expr, ast.Name):
            e = self.resolve_binding(m, expr.id)
            if e is not None:
                return e
            if expr.id in m.bindings:
                return None
            if expr.id in BUILTINS:
                return Ent("builtin", expr.id)
            return None
        if isinstance(expr, ast.Attribute):
            base = self.resolve_in_module(m, expr.value)
            return self.ent_attr(base, expr.attr)
        return None

    def ent_attr(self, base: Optional[Ent], attr: str) -> Optional[Ent]:
        if base is None:
            return None
        if base.kind == "module":
            return self.module_attr(base.value, attr)
        if base.kind == "ext":
            return Ent("ext", f"{base.value}.{attr}")
        if base.kind == "class":
            ci: ClassInfo = base.value
            f = ci.find_method(attr)
            if f is not None:
                return Ent("func", f, "classattr")
            a = ci.find_attr(attr)
            if a is not None:
                return Ent("var", a[1], a[0].module)
            return None
        if base.kind == "self":
            ci: ClassInfo = base.value
            # backend classes: methods are overridable through register_method, so
            # ``self.<prim>`` is the *dispatched* primitive, not the base-class stub
            if ci.find_method("register_method") is not None and attr in self.backend_names:
                return Ent("backend", attr)
            f = ci.find_method(attr)
            if f is not None:
                return Ent("func", f, "bound")
            return Ent("selfattr", ci, attr)
        return None

    def resolve_expr(self, fi: Optional[FunctionInfo], m: Module, expr: ast.AST) -> Optional[Ent]:
        """Resolve ``expr`` evaluated inside function ``fi`` (or at module level)."""
        if isinstance(expr, ast.Name):
            f = fi
            while f is not None:
                if expr.id in f.nested:
                    return Ent("func", f.nested[expr.id])
                if f.self_name == expr.id and f.cls is not None:
                    if f.is_classmethod:
                        return Ent("class", f.cls)
                    return Ent("self", f.cls)
                if expr.id in f.local_names():
                    # function-local import?
                    ent = self._local_import(f, expr.id)
                    return ent
                f = f.parent
            return self.resolve_in_module(m, expr)
        if isinstance(expr, ast.Attribute):
            base = self.resolve_expr(fi, m, expr.value)
            return self.ent_attr(base, expr.attr)
        return None

    def _local_import(self, f: FunctionInfo, name: str) -> Optional[Ent]:
        k = (f.qname, name)
        if k not in self._li_cache:
            self._li_cache[k] = self._local_import_uncached(f, name)
        return self._li_cache[k]

    def _local_import_uncached(self, f: FunctionInfo, name: str) -> Optional[Ent]:
        for n in _own_scope_nodes(f.node):
            if isinstance(n, ast.ImportFrom):
                for a in n.names:
                    if (a.asname or a.name) == name:
                        src = self._abs_import(f.module, n.level, n.module)
                        sm = self.modules.get(src)
                        if sm is None:
                            if src.split(".")[0] == PKG:
                                return None
                            return Ent("ext", f"{src}.{a.name}")
                        return self.module_attr(sm, a.name)
            elif isinstance(n, ast.Import):
                for a in n.names:
                    if (a.asname or a.name.split(".")[0]) == name:
                        return self._module_ent(a.name if a.asname else a.name.split(".")[0])
        return None

    def resolve_call(self, fi: Optional[FunctionInfo], m: Module, call: ast.Call) -> CallTarget:
        key = id(call)
        r = self._rc_cache.get(key)
        if r is None or r[0] is not call:
            r = (call, self._resolve_call(fi, m, call))
            self._rc_cache[key] = r
        return r[1]

    def _resolve_call(self, fi: Optional[FunctionInfo], m: Module, call: ast.Call) -> CallTarget:
        fn = call.func
        ent = self.resolve_expr(fi, m, fn)
        if ent is not None and ent.kind == "func" and isinstance(fn, ast.Name):
            # a nested function defined more than once: every definition is a candidate
            f = fi
            while f is not None:
                if fn.id in f.nested_all and len(f.nested_all[fn.id]) > 1:
                    return CallTarget("repo", list(f.nested_all[fn.id]), fn.id)
                f = f.parent
        if ent is not None:
            if ent.kind == "func":
                f: FunctionInfo = ent.value
                bound = ent.extra == "bound" and f.binds_first
                if ent.extra == "classattr":
                    # Class.method(...) : classmethods bind cls, others are plain
                    bound = f.is_classmethod
                return CallTarget("repo", [f], f.name, bound=bound)
            if ent.kind == "class":
                ci: ClassInfo = ent.value
                init = ci.find_method("__init__")
                if init is not None:
                    return CallTarget("repo", [init], ci.name, bound=True, cls=ci)
                return CallTarget("class", [], ci.name, cls=ci)
            if ent.kind == "backend":
                return CallTarget("backend", [], ent.value)
            if ent.kind == "tenalg":
                fs = []
                for be in ("core", "einsum"):
                    f = self.tenalg_impls[be].get(ent.value)
                    if f is not None:
                        fs.append(f)
                if fs:
                    return CallTarget("repo", fs, ent.value)
                return CallTarget("unknown", [], ent.value)
            if ent.kind == "ext":
                return CallTarget("ext", [], ent.value)
            if ent.kind == "builtin":
                return CallTarget("builtin", [], ent.value)
            if ent.kind == "selfattr":
                return CallTarget("local", [], f"self.{ent.extra}", receiver=fn)
            if ent.kind == "var":
                return CallTarget("local", [], ast.unparse(fn))
        if isinstance(fn, ast.Attribute):
            # class-hierarchy analysis on names: a method name defined by exactly one
            # repository class (and not a container / ndarray / str method) resolves to it
            if fn.attr not in COMMON_METHODS and not fn.attr.startswith("__"):
                cands = [c.methods[fn.attr] for c in self.classes.values() if fn.attr in c.methods]
                if len(cands) == 1 and cands[0].binds_first:
                    ct = CallTarget("repo", cands, fn.attr, bound=True, receiver=fn.value)
                    ct.cha = True
                    return ct
            return CallTarget("method", [], fn.attr, receiver=fn.value)
        if isinstance(fn, ast.Name):
            f = fi
            while f is not None:
                if fn.id in f.local_names():
                    return CallTarget("local", [], fn.id)
                f = f.parent
            if fn.id in BUILTINS:
                return CallTarget("builtin", [], fn.id)
        return CallTarget("unknown", [], ast.unparse(fn)[:60])

    # -- helpers ---------------------------------------------------------------------
    def function_of(self, node) -> Optional[FunctionInfo]:
        return self._func_of_node.get(id(node))

    def iter_functions(self):
        return list(self.functions.values())

    def classes_with_method(self, name) -> List[ClassInfo]:
        return [c for c in self.classes.values() if name in c.methods]

    def stats(self) -> dict:
        return {
            "files": len(self.modules),
            "functions": len(self.functions),
            "classes": len(self.classes),
        }


def _own_scope_nodes(fnode):
    """All AST nodes in ``fnode``'s own scope; nested defs are yielded, not entered."""
    stack = list(reversed(getattr(fnode, "body", []) if not isinstance(fnode, ast.Lambda) else []))
    while stack:
        n = stack.pop()
        yield n
        if isinstance(n, (ast.FunctionDef, ast.AsyncFunctionDef, ast.ClassDef, ast.Lambda)):
            continue
        stack.extend(reversed(list(ast.iter_child_nodes(n))))


def own_scope_nodes(fnode):
    return _own_scope_nodes(fnode)


# ---------------------------------------------------------------------------------
# binding: match a call's arguments to a callee's parameters
# ---------------------------------------------------------------------------------
@dataclass
class Binding:
    ok: bool
    params: Dict[str, ast.AST] = field(default_factory=dict)  # param -> argument expr
    star_args: List[ast.AST] = field(default_factory=list)
    star_kwargs: List[ast.AST] = field(default_factory=list)
    extra_pos: List[ast.AST] = field(default_factory=list)  # absorbed by *args
    extra_kw: Dict[str, ast.AST] = field(default_factory=dict)  # absorbed by **kwargs
    missing: List[str] = field(default_factory=list)
    problems: List[str] = field(default_factory=list)


def bind_call(call: ast.Call, f: FunctionInfo, bound: bool) -> Binding:
    pos = list(f.pos_params)
    if bound and pos:
        pos = pos[1:]
    npos_only = len(f.args.posonlyargs) - (1 if bound and f.args.posonlyargs else 0)
    kwonly = f.kwonly_params
    b = Binding(True)
    has_star = False
    i = 0
    for a in call.args:
        if isinstance(a, ast.Starred):
            has_star = True
            b.star_args.append(a.value)
            continue
        if has_star:
            b.extra_pos.append(a)
            continue
        if i < len(pos):
            b.params[pos[i]] = a
            i += 1
        elif f.vararg:
            b.extra_pos.append(a)
        else:
            b.ok = False
            b.problems.append(
                f"too many positional arguments ({len(call.args)} given, {len(pos)} accepted)"
            )
            break
    for kw in call.keywords:
        if kw.arg is None:
            b.star_kwargs.append(kw.value)
            continue
        if kw.arg in pos[max(npos_only, 0):] or kw.arg in kwonly:
            if kw.arg in b.params:
                b.ok = False
                b.problems.append(f"multiple values for parameter '{kw.arg}'")
            b.params[kw.arg] = kw.value
        elif f.kwarg:
            b.extra_kw[kw.arg] = kw.value
        else:
            b.ok = False
            b.problems.append(f"unexpected keyword argument '{kw.arg}'")
    dflt = f.defaults
    if not has_star and not b.star_kwargs:
        for p in pos + kwonly:
            if p not in b.params and p not in dflt:
                b.missing.append(p)
        if b.missing:
            b.ok = False
            b.problems.append("missing required argument(s): " + ", ".join(b.missing))
    elif not b.star_kwargs:
        pass
    return b


def symtable_crosscheck(repo: Repo) -> List[str]:
    """DESIGN §5.4: compare our local-name facts with ``symtable`` per function."""
    problems = []
    for m in repo.modules.values():
        try:
            top = symtable.symtable(m.src, m.rel, "exec")
        except SyntaxError as e:  # pragma: no cover
            problems.append(f"{m.rel}: symtable failed: {e}")
            continue
        index = {}

        def walk(t):
            for c in t.get_children():
                index.setdefault((c.get_name(), c.get_lineno()), c)
                walk(c)

        walk(top)
        for fi in repo.functions.values():
            if fi.module is not m or isinstance(fi.node, ast.Lambda):
                continue
            # decorators shift lineno in symtable for py>=3.8? it reports the def line
            st = index.get((fi.name, fi.node.lineno))
            if st is None or st.get_type() != "function":
                continue
            sym_locals = set(st.get_locals()) - set(st.get_globals())
            sym_locals = {s for s in sym_locals if not s.startswith(".")}
            ours = fi.local_names()
            # Python 3.12 inlines comprehensions (PEP 709): their iteration variables are
            # reported as locals of the enclosing function although they stay invisible
            comp_targets = set()
            for n in _own_scope_nodes(fi.node):
                if isinstance(n, (ast.ListComp, ast.SetComp, ast.DictComp, ast.GeneratorExp)):
                    for sub in ast.walk(n):
                        if isinstance(sub, ast.comprehension):
                            comp_targets |= {x.id for x in ast.walk(sub.target) if isinstance(x, ast.Name)}
            diff = (ours - sym_locals) | (sym_locals - ours - comp_targets)
            if diff:
                problems.append(f"{fi.qname}: local-name disagreement {sorted(diff)}")
    return problems
