"""Branch-consistent path exploration (BCPE, DESIGN §2.4).

Explores the CFG depth-first.  A path carries

* the rule's abstract state (any hashable),
* a valuation of *atoms* (normalised source text of leaf tests) recorded when a branch
  is taken and re-used when the same atom is met again,
* a constant environment for names that were assigned ``True/False/None``/a string/an
  integer literal (sparse conditional constant propagation), seeded with the call-site
  specialisation of the function (``entry_consts``).

Atoms are dropped when a name occurring in them is re-bound or mutated.  Visited
``(node, state, valuation, consts)`` tuples are memoised, so loops reach a fixed point
without an unrolling bound.
"""

from __future__ import annotations

import ast
from typing import Dict, Optional

from .cfg import CFG, Node, assigned_names, names_in

MUTATORS = {
    "append",
    "remove",
    "pop",
    "insert",
    "sort",
    "extend",
    "clear",
    "update",
    "reverse",
    "fill",
    "add",
    "discard",
    "setdefault",
    "popitem",
    "resize",
    "put",
    "itemset",
    "__setitem__",
}

PURE_CALLS = {"isinstance", "len", "callable", "hasattr", "range", "list", "tuple", "set", "ndim", "shape", "min", "max", "int", "float", "bool", "type"}

_UNKNOWN = object()


def _is_pure_atom(e) -> bool:
    for n in ast.walk(e):
        if isinstance(n, ast.Call):
            f = n.func
            nm = f.id if isinstance(f, ast.Name) else (f.attr if isinstance(f, ast.Attribute) else None)
            if nm not in PURE_CALLS:
                return False
        elif isinstance(
            n,
            (
                ast.Name,
                ast.Constant,
                ast.Compare,
                ast.UnaryOp,
                ast.BinOp,
                ast.BoolOp,
                ast.Tuple,
                ast.List,
                ast.Attribute,
                ast.Load,
                ast.operator,
                ast.cmpop,
                ast.unaryop,
                ast.boolop,
                ast.expr_context,
                ast.Subscript,
                ast.Slice,
                ast.keyword,
            ),
        ):
            continue
        else:
            return False
    return True


def normalise_atom(e):
    """Return (key, polarity): the atom is true iff ``key`` evaluates to ``polarity``."""
    pol = True
    while isinstance(e, ast.UnaryOp) and isinstance(e.op, ast.Not):
        e = e.operand
        pol = not pol
    if isinstance(e, ast.Compare) and len(e.ops) == 1:
        op = e.ops[0]
        flip = {ast.IsNot: ast.Is, ast.NotEq: ast.Eq, ast.NotIn: ast.In}
        for a, b in flip.items():
            if isinstance(op, a):
                e2 = ast.Compare(left=e.left, ops=[b()], comparators=e.comparators)
                return ast.unparse(e2), not pol
    return ast.unparse(e), pol


class Kind(tuple):
    """Opaque value of known Python kind: Kind(('tuple', n)) / ('list', n) / ('dict', n)."""

    __slots__ = ()

    @property
    def kind(self):
        return self[1]

    @property
    def n(self):
        return self[2]


def mk_kind(kind, n):
    return Kind(("__kind__", kind, n))


def is_kind(v):
    return isinstance(v, Kind)


def const_of(node, opaque=False):
    """Literal value of an expression node, or _UNKNOWN.

    With ``opaque=True`` tuple / list / dict displays whose elements are not literals are
    returned as ``Kind`` markers (their Python kind and length are known, nothing else).
    """
    if isinstance(node, ast.Constant):
        return node.value
    if isinstance(node, ast.UnaryOp) and isinstance(node.op, ast.USub) and isinstance(node.operand, ast.Constant):
        v = node.operand.value
        if isinstance(v, (int, float)):
            return -v
    if isinstance(node, (ast.Tuple, ast.List)):
        vals = [const_of(e) for e in node.elts]
        if all(v is not _UNKNOWN for v in vals) and not any(isinstance(e, ast.Starred) for e in node.elts):
            return tuple(vals) if isinstance(node, ast.Tuple) else ("__list__",) + tuple(vals)
        if opaque and not any(isinstance(e, ast.Starred) for e in node.elts):
            return mk_kind("tuple" if isinstance(node, ast.Tuple) else "list", len(node.elts))
    if opaque and isinstance(node, ast.Dict) and all(k is not None for k in node.keys):
        return mk_kind("dict", len(node.keys))
    return _UNKNOWN


_TYPES = {"int": int, "float": float, "str": str, "bool": bool, "tuple": tuple, "list": list, "dict": dict}


def eval_atom(e, consts: dict):
    """Evaluate an atom under the constant environment; _UNKNOWN if undetermined."""

    def val(x):
        if isinstance(x, ast.Name):
            return consts.get(x.id, _UNKNOWN)
        return const_of(x)

    if isinstance(e, ast.UnaryOp) and isinstance(e.op, ast.Not):
        v = eval_atom(e.operand, consts)
        return _UNKNOWN if v is _UNKNOWN else (not v)
    if isinstance(e, ast.Name) or isinstance(e, ast.Constant):
        v = val(e)
        if v is _UNKNOWN:
            return _UNKNOWN
        if is_kind(v):
            return v.n > 0
        if isinstance(v, tuple) and v and v[0] == "__list__":
            return len(v) > 1
        return bool(v)
    if isinstance(e, ast.Compare) and len(e.ops) == 1:
        a, b = val(e.left), val(e.comparators[0])
        op = e.ops[0]
        if a is _UNKNOWN or b is _UNKNOWN:
            return _UNKNOWN
        if is_kind(a) or is_kind(b):
            k, o = (a, b) if is_kind(a) else (b, a)
            if isinstance(op, (ast.Is, ast.Eq)):
                if o is None or isinstance(o, (str, int, float, bool)):
                    return False
                return _UNKNOWN
            if isinstance(op, (ast.IsNot, ast.NotEq)):
                if o is None or isinstance(o, (str, int, float, bool)):
                    return True
                return _UNKNOWN
            return _UNKNOWN
        try:
            if isinstance(op, ast.Is):
                return a is b if (a is None or b is None or isinstance(a, bool) or isinstance(b, bool)) else _UNKNOWN
            if isinstance(op, ast.IsNot):
                return a is not b if (a is None or b is None or isinstance(a, bool) or isinstance(b, bool)) else _UNKNOWN
            if isinstance(op, ast.Eq):
                return a == b
            if isinstance(op, ast.NotEq):
                return a != b
            if isinstance(op, ast.Lt):
                return a < b
            if isinstance(op, ast.LtE):
                return a <= b
            if isinstance(op, ast.Gt):
                return a > b
            if isinstance(op, ast.GtE):
                return a >= b
            if isinstance(op, ast.In):
                bb = b[1:] if isinstance(b, tuple) and b and b[0] == "__list__" else b
                return a in bb
            if isinstance(op, ast.NotIn):
                bb = b[1:] if isinstance(b, tuple) and b and b[0] == "__list__" else b
                return a not in bb
        except TypeError:
            return _UNKNOWN
    if (
        isinstance(e, ast.Call)
        and isinstance(e.func, ast.Name)
        and e.func.id == "isinstance"
        and len(e.args) == 2
    ):
        v = val(e.args[0])
        if v is _UNKNOWN:
            return _UNKNOWN
        if is_kind(v):
            v = {"tuple": (), "list": [], "dict": {}}[v.kind]
        if isinstance(v, tuple) and v and v[0] == "__list__":
            v = list(v[1:])
        t = e.args[1]
        names = []
        for x in t.elts if isinstance(t, ast.Tuple) else [t]:
            if isinstance(x, ast.Name) and x.id in _TYPES:
                names.append(_TYPES[x.id])
            else:
                # a repo / numpy class: a literal constant is never an instance of it
                names.append(None)
        if any(n is not None and isinstance(v, n) for n in names):
            return True
        if all(n is not None for n in names):
            return False
        # remaining classes are non-builtin: literals of builtin type are not instances
        return False
    return _UNKNOWN


class Violation:
    def __init__(self, key, message, node, path, valuation, consts, extra=None):
        self.key = key
        self.message = message
        self.node = node
        self.path = path
        self.valuation = valuation
        self.consts = consts
        self.extra = extra or {}


class Explorer:
    """Run a path rule over a CFG.

    ``rule`` must provide
        init_state() -> hashable
        transfer(node, state, ex) -> state or None      (None prunes the path)
    and may provide
        edge(node, label, state, ex) -> state or None
        at_exit(kind, state, ex)                         (kind: 'exit' | 'raise_exit')
        decide_for(node, state, ex) -> None | 'iter' | 'done'   (force a loop decision)
    """

    def __init__(self, cfg: CFG, rule, entry_consts: Optional[Dict[str, object]] = None, max_states=3_000_000, follow_exc=True, entry_valuation=None, track="all"):
        self.cfg = cfg
        self.rule = rule
        self.entry_consts = dict(entry_consts or {})
        self.entry_valuation = frozenset((entry_valuation or {}).items())
        self.max_states = max_states
        self.follow_exc = follow_exc
        self.track = track
        self._corr_keys = None
        self.visited = {}
        self._kill_cache = {}
        self._decide_cache = {}
        self.violations = {}
        self.states = 0
        self.paths_to_exit = 0
        self._cur = None
        self.truncated = False

    # -- reporting from rules --------------------------------------------------------
    def report(self, key, message, node: Optional[Node] = None, extra=None):
        if key in self.violations:
            return
        path = self.path_to(self._cur)
        k = self._cur
        self.violations[key] = Violation(
            key, message, node, path, dict(k[2]) if k else {}, dict(k[3]) if k else {}, extra
        )

    def path_to(self, key, limit=400):
        out = []
        seen = set()
        while key is not None and key not in seen and len(out) < limit:
            seen.add(key)
            parent, label = self.visited.get(key, (None, None))
            n = self.cfg.nodes[key[0]]
            if n.kind not in ("join",):
                out.append({"line": n.lineno, "kind": n.kind, "decision": None if label is None else str(label), "src": (ast.unparse(n.ast).split("\n")[0][:100] if n.ast is not None and n.kind != "for" else (f"for {ast.unparse(n.ast.target)} in {ast.unparse(n.ast.iter)}"[:100] if n.kind == "for" else ""))})
            key = parent
        out.reverse()
        return out

    # -- the walk ----------------------------------------------------------------------
    def run(self):
        cfg = self.cfg
        rule = self.rule
        start = (cfg.entry.id, rule.init_state(), self.entry_valuation, frozenset(self.entry_consts.items()))
        self.visited[start] = (None, None)
        stack = [start]
        has_edge = hasattr(rule, "edge")
        has_exit = hasattr(rule, "at_exit")
        has_for = hasattr(rule, "decide_for")
        while stack:
            key = stack.pop()
            nid, state, val, consts = key
            node = cfg.nodes[nid]
            self._cur = key
            self.states += 1
            if self.states > self.max_states:
                self.truncated = True
                break
            if node.kind in ("exit", "raise_exit"):
                self.paths_to_exit += 1
                if has_exit:
                    rule.at_exit(node.kind, state, self)
                continue
            # exceptional edges carry the pre-state
            if self.follow_exc:
                for j, lab in cfg.succ[nid]:
                    if lab == "exc":
                        self._push(stack, key, j, lab, state, val, consts)
            new_state = rule.transfer(node, state, self)
            if new_state is None:
                continue
            cd = dict(consts)
            vd = val
            forced = None
            if node.kind == "test":
                forced, vd2 = self._decide(node, val, cd)
            elif node.kind in ("stmt", "for", "with"):
                vd, cd = self._kill(node, val, cd)
            if node.kind == "for" and has_for:
                forced = rule.decide_for(node, new_state, self)
            consts2 = frozenset(cd.items())
            for j, lab in cfg.succ[nid]:
                if lab == "exc":
                    continue
                st2 = new_state
                v2 = vd
                if node.kind == "test":
                    if forced is not None and lab != forced:
                        continue
                    if forced is None and vd2 is not None:
                        # record the decision for a trackable atom
                        k, pol = vd2
                        v2 = val | {(k, (lab == pol))}
                elif node.kind == "for" and forced is not None and lab != forced:
                    continue
                if has_edge:
                    st2 = rule.edge(node, lab, st2, self)
                    if st2 is None:
                        continue
                self._push(stack, key, j, lab, st2, v2, consts2)
        return self

    def _push(self, stack, parent, j, lab, state, val, consts):
        k = (j, state, val, consts)
        if k in self.visited:
            return
        self.visited[k] = (parent, lab)
        stack.append(k)

    def _decide(self, node, val, consts):
        """-> (forced label or None, (key, polarity) to record or None)."""
        e = node.ast
        v = eval_atom(e, consts) if consts else (eval_atom(e, consts) if isinstance(e, ast.Constant) else _UNKNOWN)
        if v is not _UNKNOWN:
            return bool(v), None
        info = self._decide_cache.get(node.id)
        if info is None:
            key, pol = normalise_atom(e)
            info = (key, pol, _is_pure_atom(e))
            self._decide_cache[node.id] = info
        key, pol, pure = info
        for k, b in val:
            if k == key:
                return (b == pol), None
        if pure and self._should_track(key, node):
            return None, (key, pol)
        return None, None

    def _should_track(self, key, node):
        """'all': every pure atom.  'corr': only atoms that can correlate two decisions --
        tested at >= 2 test nodes, or tested inside a loop (a loop-invariant option must not
        flip between iterations), or mentioning a name that is assigned a constant."""
        if self.track == "all":
            return True
        if self._corr_keys is None:
            count = {}
            inloop = set()
            consts = set()
            for n in self.cfg.nodes:
                if n.kind == "test":
                    k, _ = normalise_atom(n.ast)
                    count[k] = count.get(k, 0) + 1
                    if n.loop is not None:
                        inloop.add(k)
                elif n.kind == "stmt" and isinstance(n.ast, ast.Assign) and len(n.ast.targets) == 1 and isinstance(n.ast.targets[0], ast.Name):
                    if const_of(n.ast.value) is not _UNKNOWN:
                        consts.add(n.ast.targets[0].id)
            keys = {k for k, c in count.items() if c >= 2} | inloop
            for k in count:
                if _atom_names(k) & consts:
                    keys.add(k)
            self._corr_keys = keys
        return key in self._corr_keys

    def _kill(self, node, val, consts):
        info = self._kill_cache.get(node.id)
        if info is None:
            info = self._kill_info(node)
            self._kill_cache[node.id] = info
        killed, newc = info
        if not killed:
            return val, consts
        for n in killed:
            consts.pop(n, None)
        if newc:
            consts[newc[0]] = newc[1]
        if val:
            val = frozenset((k, b) for k, b in val if not (_atom_names(k) & killed))
        return val, consts

    def _kill_info(self, node):
        a = node.ast
        killed = set()
        if node.kind == "stmt" and node.note == "opaque":
            from .cfg import all_assigned_names

            killed |= all_assigned_names(a)
            for c in ast.walk(a):
                killed |= _mutated_names(c)
        else:
            killed |= assigned_names(a)
            if node.kind == "stmt":
                for c in ast.walk(a):
                    killed |= _mutated_names(c)
        # constant propagation
        newc = None
        if isinstance(a, ast.Assign) and len(a.targets) == 1 and isinstance(a.targets[0], ast.Name):
            v = const_of(a.value, opaque=True)
            if v is not _UNKNOWN and not isinstance(v, float):
                newc = (a.targets[0].id, v)
        return frozenset(killed), newc


_atom_names_cache: Dict[str, frozenset] = {}


def _atom_names(key: str) -> frozenset:
    r = _atom_names_cache.get(key)
    if r is None:
        try:
            r = frozenset(names_in(ast.parse(key, mode="eval")))
        except SyntaxError:
            r = frozenset()
        _atom_names_cache[key] = r
    return r


def _mutated_names(c) -> set:
    out = set()
    if isinstance(c, ast.Call) and isinstance(c.func, ast.Attribute) and c.func.attr in MUTATORS:
        b = c.func.value
        while isinstance(b, (ast.Attribute, ast.Subscript)):
            b = b.value
        if isinstance(b, ast.Name):
            out.add(b.id)
    elif isinstance(c, (ast.Assign, ast.AugAssign)):
        ts = c.targets if isinstance(c, ast.Assign) else [c.target]
        for t in ts:
            for x in ast.walk(t):
                if isinstance(x, (ast.Subscript, ast.Attribute)) and isinstance(x.ctx, ast.Store):
                    b = x.value
                    while isinstance(b, (ast.Attribute, ast.Subscript)):
                        b = b.value
                    if isinstance(b, ast.Name):
                        out.add(b.id)
    return out
