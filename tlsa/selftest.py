"""Self-test of the checkers (thorough tier; DESIGN §5).

Seeded variants are *in-memory overlays* of /repo's current source (nothing is written to
disk, nothing is imported or run): each one breaks one rule instance by an AST-guided or
textual edit and must make the corresponding check report a violation; benign twins
(behaviour-preserving edits) must stay silent.  A variant that the catalogue
(``selftest_catalogue.json``, calibrated at development time) expects to be caught and is
missed, or a twin that raises an alarm, makes the thorough run fail as ANALYSIS-ERROR: the
checker is broken, which is not a statement about the property.

    python -m tlsa.selftest --calibrate      rewrite the catalogue from the current tree
    python -m tlsa.selftest --list [PROP]    list generated variants
"""

from __future__ import annotations

import ast
import json
import os
import re
import sys
import warnings
from concurrent.futures import ProcessPoolExecutor
from dataclasses import dataclass, field
from typing import Dict, List, Optional

warnings.simplefilter("ignore", SyntaxWarning)

from .model import REPO_ROOT, AnalysisError, in_scope

HERE = os.path.dirname(os.path.dirname(os.path.abspath(__file__)))
CATALOGUE = os.path.join(HERE, "selftest_catalogue.json")


@dataclass
class Variant:
    prop: str
    vid: str
    kind: str  # mutant | twin
    overlay: Dict[str, str]
    note: str = ""


def _read(rel):
    with open(os.path.join(REPO_ROOT, rel), encoding="utf-8") as fh:
        return fh.read()


def _files():
    out = []
    base = os.path.join(REPO_ROOT, "tensorly")
    for dp, dn, fn in os.walk(base):
        dn.sort()
        for f in sorted(fn):
            rel = os.path.relpath(os.path.join(dp, f), REPO_ROOT)
            if in_scope(rel):
                out.append(rel)
    return out


# ---------------------------------------------------------------------------------
# source-preserving edits: replace the text span of an AST node
# ---------------------------------------------------------------------------------
class Src:
    def __init__(self, rel):
        self.rel = rel
        self.text = _read(rel)
        self.tree = ast.parse(self.text)
        self.lines = self.text.split("\n")
        self.offsets = [0]
        for l in self.lines:
            self.offsets.append(self.offsets[-1] + len(l.encode("utf-8")) + 1)
        self.bytes = self.text.encode("utf-8")

    def span(self, node):
        a = self.offsets[node.lineno - 1] + node.col_offset
        b = self.offsets[node.end_lineno - 1] + node.end_col_offset
        return a, b

    def seg(self, node) -> str:
        a, b = self.span(node)
        return self.bytes[a:b].decode("utf-8")

    def replace(self, node, new_text) -> Optional[str]:
        a, b = self.span(node)
        out = (self.bytes[:a] + new_text.encode("utf-8") + self.bytes[b:]).decode("utf-8")
        try:
            compile(out, self.rel, "exec", dont_inherit=True)
        except SyntaxError:
            return None
        return out

    def functions(self):
        for n in ast.walk(self.tree):
            if isinstance(n, (ast.FunctionDef, ast.AsyncFunctionDef)):
                yield n


def _fname_of(src: Src, node):
    best = None
    for f in src.functions():
        if f.lineno <= node.lineno and node.end_lineno <= f.end_lineno:
            if best is None or f.lineno >= best.lineno:
                best = f
    return best.name if best else "<module>"


def _norm(t):
    return " ".join(t.split())[:70]


def _call_without_keywords(src: Src, call: ast.Call, drop) -> Optional[str]:
    """text of ``call`` with the keywords selected by ``drop(keyword)`` removed"""
    keep = [k for k in call.keywords if not drop(k)]
    if len(keep) == len(call.keywords):
        return None
    parts = [src.seg(a) for a in call.args]
    for k in keep:
        parts.append(("**" + src.seg(k.value)) if k.arg is None else f"{k.arg}={src.seg(k.value)}")
    return f"{src.seg(call.func)}({', '.join(parts)})"


ALLOC = {"zeros", "ones", "eye", "tensor"}
SEEDKW = {"random_state", "seed"}


def gen_generic() -> List[Variant]:
    out: List[Variant] = []
    counts = {}

    def add(prop, rel, src, node, new, kind, tag):
        txt = src.replace(node, new)
        if txt is None or txt == src.text:
            return
        fn = _fname_of(src, node)
        base = f"{prop}:{tag}:{rel}:{fn}:{_norm(src.seg(node))}"
        counts[base] = counts.get(base, 0) + 1
        vid = base + (f"#{counts[base]}" if counts[base] > 1 else "")
        out.append(Variant(prop, vid, kind, {rel: txt}, f"{tag}: {_norm(src.seg(node))} -> {_norm(new)}"))

    for rel in _files():
        if rel.startswith("tensorly/backend/") or rel.endswith("testing.py") or rel.endswith("plugins.py"):
            continue
        src = Src(rel)
        for n in ast.walk(src.tree):
            if isinstance(n, ast.Call):
                nm = n.func.attr if isinstance(n.func, ast.Attribute) else (n.func.id if isinstance(n.func, ast.Name) else None)
                # C18: drop the context / dtype of an allocation
                if nm in ALLOC and any(k.arg is None or k.arg == "dtype" for k in n.keywords):
                    new = _call_without_keywords(src, n, lambda k: k.arg is None or k.arg == "dtype")
                    if new:
                        add("C18", rel, src, n, new, "mutant", "drop-context")
                # C16: drop a forwarded seed
                if any(k.arg in SEEDKW for k in n.keywords) and nm not in ("check_random_state",):
                    new = _call_without_keywords(src, n, lambda k: k.arg in SEEDKW)
                    if new:
                        add("C16", rel, src, n, new, "mutant", "drop-seed")
                # C16: draw from the global generator instead of the seeded one
                if isinstance(n.func, ast.Attribute) and n.func.attr in ("random_sample", "randn", "normal", "randint", "choice") and isinstance(n.func.value, ast.Name) and n.func.value.id in ("rng", "rns"):
                    add("C16", rel, src, n.func.value, "np.random", "mutant", "global-rng")
                # C15: drop a defensive copy
                if nm == "copy" and isinstance(n.func, ast.Attribute) and isinstance(n.func.value, ast.Name) and n.func.value.id in ("tl", "T") and len(n.args) == 1:
                    add("C15", rel, src, n, src.seg(n.args[0]), "mutant", "drop-copy")
                if nm == "list" and isinstance(n.func, ast.Name) and len(n.args) == 1 and isinstance(n.args[0], ast.Name):
                    add("C15", rel, src, n, src.seg(n.args[0]), "mutant", "drop-list-copy")
                # C10: drop a sign sanitiser
                if nm == "abs" and isinstance(n.func, ast.Attribute) and len(n.args) == 1 and ("decomposition" in rel or "solvers" in rel or rel.endswith("svd.py")):
                    add("C10", rel, src, n, src.seg(n.args[0]), "mutant", "drop-abs")
                if nm == "clip" and n.args and ("decomposition" in rel or "solvers" in rel):
                    add("C10", rel, src, n, src.seg(n.args[0]), "mutant", "drop-clip")
            # C15: turn `x = x op y` on a parameter into an in-place update
            if isinstance(n, ast.Assign) and len(n.targets) == 1 and isinstance(n.targets[0], ast.Name) and isinstance(n.value, ast.BinOp) and isinstance(n.value.left, ast.Name) and n.value.left.id == n.targets[0].id and isinstance(n.value.op, (ast.Add, ast.Sub, ast.Mult)):
                op = {ast.Add: "+=", ast.Sub: "-=", ast.Mult: "*="}[type(n.value.op)]
                fn = None
                for f in src.functions():
                    if f.lineno <= n.lineno <= f.end_lineno and n.targets[0].id in [a.arg for a in f.args.args]:
                        fn = f
                if fn is not None and ("decomposition" in rel or "regression" in rel or "tenalg" in rel or "preprocessing" in rel):
                    add("C15", rel, src, n, f"{n.targets[0].id} {op} {src.seg(n.value.right)}", "mutant", "in-place")
            # C14: sweep over every mode instead of the filtered list
            if isinstance(n, ast.For) and isinstance(n.iter, ast.Name) and n.iter.id in ("modes_list", "modes") and "decomposition" in rel and isinstance(n.target, ast.Name) and n.target.id == "mode":
                add("C14", rel, src, n.iter, "range(tl.ndim(tensor))", "mutant", "sweep-all-modes")
            # C08: return the raw tuple instead of the validated wrapper
            if isinstance(n, ast.Return) and n.value is not None and "decomposition" in rel:
                v = n.value
                tgt = v.elts[0] if isinstance(v, ast.Tuple) and v.elts else v
                if isinstance(tgt, ast.Call) and isinstance(tgt.func, ast.Name) and tgt.func.id in ("CPTensor", "TuckerTensor", "TTTensor", "TRTensor", "TTMatrix", "Parafac2Tensor") and len(tgt.args) == 1:
                    add("C08", rel, src, tgt, src.seg(tgt.args[0]), "mutant", "unwrap-return")
        # twins: shift every line (keys must be line-independent) and reverse keyword order of calls
        if rel in TWIN_FILES:
            shifted = "# twin: leading comment lines shift every line number\n#\n#\n" + src.text
            for prop in TWIN_FILES[rel]:
                out.append(Variant(prop, f"{prop}:twin-lineshift:{rel}", "twin", {rel: shifted}, "three comment lines prepended"))
            # reverse the keyword order of every call that has >= 2 named keywords and no **
            edits = []
            for n in ast.walk(src.tree):
                if isinstance(n, ast.Call) and len(n.keywords) >= 2 and all(k.arg is not None for k in n.keywords) and not any(isinstance(a, ast.Starred) for a in n.args):
                    parts = [src.seg(a) for a in n.args] + [f"{k.arg}={src.seg(k.value)}" for k in reversed(n.keywords)]
                    edits.append((src.span(n), f"{src.seg(n.func)}({', '.join(parts)})", n))
            # apply non-overlapping edits from the end
            edits.sort(key=lambda e: e[0][0])
            chosen, last_end = [], -1
            for (a, b), t, n in edits:
                if a >= last_end:
                    chosen.append(((a, b), t))
                    last_end = b
            bs = src.bytes
            for (a, b), t in reversed(chosen):
                bs = bs[:a] + t.encode("utf-8") + bs[b:]
            txt = bs.decode("utf-8")
            try:
                compile(txt, rel, "exec", dont_inherit=True)
                for prop in TWIN_FILES[rel]:
                    out.append(Variant(prop, f"{prop}:twin-kwreorder:{rel}", "twin", {rel: txt}, f"keyword order reversed in {len(chosen)} calls"))
            except SyntaxError:
                pass
    return out


TWIN_FILES = {
    "tensorly/decomposition/_cp.py": ["C06", "C08", "C14", "C15", "C16", "C18", "C10", "C02"],
    "tensorly/decomposition/_nn_cp.py": ["C06", "C08", "C10", "C14", "C15"],
    "tensorly/decomposition/_tucker.py": ["C06", "C08", "C10", "C15", "C16", "C18"],
    "tensorly/decomposition/_constrained_cp.py": ["C11", "C06", "C16", "C18"],
    "tensorly/decomposition/_parafac2.py": ["C06", "C08", "C10", "C16"],
    "tensorly/backend/__init__.py": ["C17"],
    "tensorly/tenalg/__init__.py": ["C17", "C02"],
    "tensorly/base.py": ["C01", "C03"],
    "tensorly/cp_tensor.py": ["C03", "C15", "C18"],
    "tensorly/tenalg/proximal.py": ["C11", "C18"],
    "tensorly/solvers/nnls.py": ["C10", "C15", "C18"],
    "tensorly/regression/cp_regression.py": ["C19", "C16"],
    "tensorly/tenalg/core_tenalg/_khatri_rao.py": ["C02", "C15"],
}


# ---------------------------------------------------------------------------------
# hand-listed textual variants (rule-specific)
# ---------------------------------------------------------------------------------
TEXTUAL = [
    # prop, id, file, old, new
    ('C18', 'bool-mask-not-in-data-context-svd', 'tensorly/tenalg/svd.py', '        mask = tl.tensor(mask, **tl.context(matrix))\n', ''),
    ('C18', 'bool-mask-not-in-data-context-tucker', 'tensorly/decomposition/_tucker.py', '    if mask is not None:\n        # in the context of the data: `1 - mask` of a boolean mask is an int64 array\n        mask = tl.tensor(mask, **tl.context(tensor))\n\n    # SVD init\n', '    # SVD init\n'),
    ('C18', 'bool-mask-not-in-data-context-error-calc', 'tensorly/decomposition/_cp.py', '            mask = tl.tensor(mask, **tl.context(tensor))\n            tensor = tensor * mask + low_rank_component * (1 - mask)', '            tensor = tensor * mask + low_rank_component * (1 - mask)'),
    ('C05', 'nndsvd-zero-pair-not-skipped', 'tensorly/tenalg/svd.py', '        elif m_n > 0:\n', '        elif m_n >= 0:\n'),
    ('C04', 'cp-normalize-threshold-guard', 'tensorly/cp_tensor.py', '        scales_non_zero = T.where(\n            scales == 0, T.ones(T.shape(scales), **T.context(factor)), scales\n        )\n        weights = weights * scales\n', '        scales_non_zero = T.where(\n            scales < 1e-12, T.ones(T.shape(scales), **T.context(factor)), scales\n        )\n        weights = weights * scales\n'),
    ('C04', 'cp-normalize-guard-branches-swapped', 'tensorly/cp_tensor.py', '        scales_non_zero = T.where(\n            scales == 0, T.ones(T.shape(scales), **T.context(factor)), scales\n        )\n        weights = weights * scales\n', '        scales_non_zero = T.where(\n            scales != 0, T.ones(T.shape(scales), **T.context(factor)), scales\n        )\n        weights = weights * scales\n'),
    ('C14', 'tucker-user-init-orthonormalised', 'tensorly/decomposition/_tucker.py', '        (core, factors) = init\n        factors = list(factors)\n', '        (core, factors) = init\n        factors = [tl.qr(f)[0] for f in factors]\n'),
    ('C05', 'symeig-floor-dropped-one-branch', 'tensorly/tenalg/svd.py', '        S = tl.sqrt(tl.clip(S, tl.eps(S.dtype)))\n        V = tl.dot(tl.transpose(matrix), U / tl.reshape(S, (1, -1)))', '        S = tl.sqrt(tl.clip(S, 0))\n        V = tl.dot(tl.transpose(matrix), U / tl.reshape(S, (1, -1)))'),
    ('C12', 'memo-key-without-dtype', 'tensorly/tenalg/proximal.py', '    diag_matrix = tl.tensor(\n        tl.diag(2 * regularizer * tl.ones(tl.shape(tensor)[0]) + 1)\n        + tl.diag(-regularizer * tl.ones(tl.shape(tensor)[0] - 1), k=-1)\n        + tl.diag(-regularizer * tl.ones(tl.shape(tensor)[0] - 1), k=1),\n        **tl.context(tensor)\n    )\n    return tl.solve(diag_matrix, tensor)\n', '    key = (tl.get_backend(), tl.shape(tensor)[0], float(regularizer))\n    diag_matrix = _SYSTEMS.get(key)\n    if diag_matrix is None:\n        diag_matrix = tl.tensor(\n            tl.diag(2 * regularizer * tl.ones(tl.shape(tensor)[0]) + 1)\n            + tl.diag(-regularizer * tl.ones(tl.shape(tensor)[0] - 1), k=-1)\n            + tl.diag(-regularizer * tl.ones(tl.shape(tensor)[0] - 1), k=1),\n            **tl.context(tensor)\n        )\n        _SYSTEMS[key] = diag_matrix\n    return tl.solve(diag_matrix, tensor)\n\n\n_SYSTEMS = {}\n'),
    ('C12', 'memo-value-edited-in-place', 'tensorly/tenalg/proximal.py', '    diag_matrix = tl.tensor(\n        tl.diag(2 * regularizer * tl.ones(tl.shape(tensor)[0]) + 1)\n        + tl.diag(-regularizer * tl.ones(tl.shape(tensor)[0] - 1), k=-1)\n        + tl.diag(-regularizer * tl.ones(tl.shape(tensor)[0] - 1), k=1),\n        **tl.context(tensor)\n    )\n    return tl.solve(diag_matrix, tensor)\n', '    key = (tl.get_backend(), tl.shape(tensor)[0], float(regularizer), str(tl.context(tensor)))\n    diag_matrix = _SYSTEMS.get(key)\n    if diag_matrix is None:\n        diag_matrix = tl.tensor(\n            tl.diag(2 * regularizer * tl.ones(tl.shape(tensor)[0]) + 1)\n            + tl.diag(-regularizer * tl.ones(tl.shape(tensor)[0] - 1), k=-1)\n            + tl.diag(-regularizer * tl.ones(tl.shape(tensor)[0] - 1), k=1),\n            **tl.context(tensor)\n        )\n        _SYSTEMS[key] = diag_matrix\n    diag_matrix += 0 * regularizer\n    return tl.solve(diag_matrix, tensor)\n\n\n_SYSTEMS = {}\n'),
    ('C18', 'memo-key-without-dtype', 'tensorly/tenalg/proximal.py', '    diag_matrix = tl.tensor(\n        tl.diag(2 * regularizer * tl.ones(tl.shape(tensor)[0]) + 1)\n        + tl.diag(-regularizer * tl.ones(tl.shape(tensor)[0] - 1), k=-1)\n        + tl.diag(-regularizer * tl.ones(tl.shape(tensor)[0] - 1), k=1),\n        **tl.context(tensor)\n    )\n    return tl.solve(diag_matrix, tensor)\n', '    key = (tl.get_backend(), tl.shape(tensor)[0], float(regularizer))\n    diag_matrix = _SYSTEMS.get(key)\n    if diag_matrix is None:\n        diag_matrix = tl.tensor(\n            tl.diag(2 * regularizer * tl.ones(tl.shape(tensor)[0]) + 1)\n            + tl.diag(-regularizer * tl.ones(tl.shape(tensor)[0] - 1), k=-1)\n            + tl.diag(-regularizer * tl.ones(tl.shape(tensor)[0] - 1), k=1),\n            **tl.context(tensor)\n        )\n        _SYSTEMS[key] = diag_matrix\n    return tl.solve(diag_matrix, tensor)\n\n\n_SYSTEMS = {}\n'),
    ('C18', 'memo-value-edited-in-place', 'tensorly/tenalg/proximal.py', '    diag_matrix = tl.tensor(\n        tl.diag(2 * regularizer * tl.ones(tl.shape(tensor)[0]) + 1)\n        + tl.diag(-regularizer * tl.ones(tl.shape(tensor)[0] - 1), k=-1)\n        + tl.diag(-regularizer * tl.ones(tl.shape(tensor)[0] - 1), k=1),\n        **tl.context(tensor)\n    )\n    return tl.solve(diag_matrix, tensor)\n', '    key = (tl.get_backend(), tl.shape(tensor)[0], float(regularizer), str(tl.context(tensor)))\n    diag_matrix = _SYSTEMS.get(key)\n    if diag_matrix is None:\n        diag_matrix = tl.tensor(\n            tl.diag(2 * regularizer * tl.ones(tl.shape(tensor)[0]) + 1)\n            + tl.diag(-regularizer * tl.ones(tl.shape(tensor)[0] - 1), k=-1)\n            + tl.diag(-regularizer * tl.ones(tl.shape(tensor)[0] - 1), k=1),\n            **tl.context(tensor)\n        )\n        _SYSTEMS[key] = diag_matrix\n    diag_matrix += 0 * regularizer\n    return tl.solve(diag_matrix, tensor)\n\n\n_SYSTEMS = {}\n'),
    ('C11', 'memo-key-without-dtype', 'tensorly/tenalg/proximal.py', '    diag_matrix = tl.tensor(\n        tl.diag(2 * regularizer * tl.ones(tl.shape(tensor)[0]) + 1)\n        + tl.diag(-regularizer * tl.ones(tl.shape(tensor)[0] - 1), k=-1)\n        + tl.diag(-regularizer * tl.ones(tl.shape(tensor)[0] - 1), k=1),\n        **tl.context(tensor)\n    )\n    return tl.solve(diag_matrix, tensor)\n', '    key = (tl.get_backend(), tl.shape(tensor)[0], float(regularizer))\n    diag_matrix = _SYSTEMS.get(key)\n    if diag_matrix is None:\n        diag_matrix = tl.tensor(\n            tl.diag(2 * regularizer * tl.ones(tl.shape(tensor)[0]) + 1)\n            + tl.diag(-regularizer * tl.ones(tl.shape(tensor)[0] - 1), k=-1)\n            + tl.diag(-regularizer * tl.ones(tl.shape(tensor)[0] - 1), k=1),\n            **tl.context(tensor)\n        )\n        _SYSTEMS[key] = diag_matrix\n    return tl.solve(diag_matrix, tensor)\n\n\n_SYSTEMS = {}\n'),
    ('C11', 'memo-value-edited-in-place', 'tensorly/tenalg/proximal.py', '    diag_matrix = tl.tensor(\n        tl.diag(2 * regularizer * tl.ones(tl.shape(tensor)[0]) + 1)\n        + tl.diag(-regularizer * tl.ones(tl.shape(tensor)[0] - 1), k=-1)\n        + tl.diag(-regularizer * tl.ones(tl.shape(tensor)[0] - 1), k=1),\n        **tl.context(tensor)\n    )\n    return tl.solve(diag_matrix, tensor)\n', '    key = (tl.get_backend(), tl.shape(tensor)[0], float(regularizer), str(tl.context(tensor)))\n    diag_matrix = _SYSTEMS.get(key)\n    if diag_matrix is None:\n        diag_matrix = tl.tensor(\n            tl.diag(2 * regularizer * tl.ones(tl.shape(tensor)[0]) + 1)\n            + tl.diag(-regularizer * tl.ones(tl.shape(tensor)[0] - 1), k=-1)\n            + tl.diag(-regularizer * tl.ones(tl.shape(tensor)[0] - 1), k=1),\n            **tl.context(tensor)\n        )\n        _SYSTEMS[key] = diag_matrix\n    diag_matrix += 0 * regularizer\n    return tl.solve(diag_matrix, tensor)\n\n\n_SYSTEMS = {}\n'),
    ("C17", "restore-publishes", "tensorly/backend/__init__.py", "cls.set_backend(_old_backend, local_threadsafe=local_threadsafe)", "cls.set_backend(_old_backend)"),
    ("C17", "no-finally", "tensorly/backend/__init__.py", "        try:\n            yield\n        finally:\n            cls.set_backend(_old_backend, local_threadsafe=local_threadsafe)", "        yield\n        cls.set_backend(_old_backend, local_threadsafe=local_threadsafe)"),
    ("C17", "unguarded-shared-store", "tensorly/backend/__init__.py", "        if not local_threadsafe:\n            cls._default_backend = backend.backend_name\n            cls._backend = backend", "        cls._default_backend = backend.backend_name\n        cls._backend = backend"),
    ("C17", "store-before-resolve", "tensorly/backend/__init__.py", "        if isinstance(backend, str):\n            # Backend is a string", "        cls._THREAD_LOCAL_DATA.backend = backend\n        if isinstance(backend, str):\n            # Backend is a string"),
    ("C17", "reader-ignores-thread-slot", "tensorly/backend/__init__.py", "        return cls._THREAD_LOCAL_DATA.__dict__.get(\"backend\", cls._backend)\n", "        return cls._backend\n"),
    ("C17", "static-capture-in-dispatch", "tensorly/backend/__init__.py", "            return getattr(\n                cls._THREAD_LOCAL_DATA.__dict__.get(\"backend\", cls._backend), name\n            )(*args, **kwargs)", "            return method(*args, **kwargs)"),
    ("C17", "tenalg-shares-thread-local", "tensorly/tenalg/__init__.py", "    _THREAD_LOCAL_DATA = threading.local()\n", ""),
    ("C17", "tenalg-shares-cache", "tensorly/tenalg/__init__.py", "    _loaded_backends = dict()\n", ""),
    ("C17", "instance-guard-on-Backend", "tensorly/backend/__init__.py", "        if isinstance(backend, str):\n            # Backend is a string", "        if not isinstance(backend, Backend):\n            # Backend is a string"),
    ("C17", "save-after-enter", "tensorly/backend/__init__.py", "        _old_backend = cls.current_backend()\n        cls.set_backend(backend, local_threadsafe=local_threadsafe)", "        cls.set_backend(backend, local_threadsafe=local_threadsafe)\n        _old_backend = cls.current_backend()"),
    ("C17", "load-stores-unknown-name", "tensorly/backend/__init__.py", "        if backend_name not in cls.available_backend_names:\n            msg = f\"Unknown backend name {backend_name!r}, known backends are {cls.available_backend_names}\"\n            raise ValueError(msg)\n        if backend_name not in Backend._available_backends:", "        if backend_name not in Backend._available_backends:"),
    ("C01", "fold-swapped-moveaxis", "tensorly/base.py", "    return tl.moveaxis(tl.reshape(unfolded_tensor, full_shape), 0, mode)", "    return tl.moveaxis(tl.reshape(unfolded_tensor, full_shape), mode, 0)"),
    ("C01", "fold-insert-at-end", "tensorly/base.py", "    full_shape.insert(0, mode_dim)", "    full_shape.insert(len(full_shape), mode_dim)"),
    ("C01", "partial-fold-ignores-skip", "tensorly/base.py", "    mode_dim = transposed_shape.pop(skip_begin + mode)", "    mode_dim = transposed_shape.pop(mode)"),
    ("C01", "unfold-arithmetic", "tensorly/base.py", "    return tl.reshape(tl.moveaxis(tensor, mode, 0), (tensor.shape[mode], -1))", "    return tl.reshape(tl.moveaxis(tensor, mode, 0) * 1.0, (tensor.shape[mode], -1))"),
    ("C01", "vec-helper-drops-skip-end", "tensorly/base.py", "    return partial_unfold(\n        tensor, mode=0, skip_begin=skip_begin, skip_end=skip_end, ravel_tensors=True\n    )", "    return partial_unfold(\n        tensor, mode=0, skip_begin=skip_begin, ravel_tensors=True\n    )"),
    ("C01", "matricize-slices", "tensorly/base.py", "        tl.transpose(tensor, row_indices + column_indices), (row_size, column_size)", "        tl.transpose(tensor, row_indices + column_indices)[..., :], (row_size, column_size)"),
    ("C02", "unregister-einsum-kronecker", "tensorly/tenalg/einsum_tenalg/__init__.py", "EinsumTenalgBackend.register_method(\"kronecker\", kronecker)\n", ""),
    ("C02", "einsum-signature-order", "tensorly/tenalg/einsum_tenalg/_kronecker.py", "def kronecker(matrices, skip_matrix=None, reverse=False):", "def kronecker(matrices, reverse=False, skip_matrix=None):"),
    ("C02", "khatri-rao-shortcut-drops-options", "tensorly/tenalg/core_tenalg/_khatri_rao.py", "        res = matrices[0]\n        if weights is not None:\n            res = res * T.reshape(weights, (1, -1))\n        if mask is not None:\n            res = res * T.reshape(mask, (-1, 1))\n        return res", "        return matrices[0]"),
    ("C02", "moment-arity", "tensorly/tenalg/core_tenalg/moments.py", "batched_outer([moment, tensor])", "batched_outer(moment, tensor)"),
    ("C02", "kronecker-ignores-reverse", "tensorly/tenalg/core_tenalg/_kronecker.py", "    for i, matrix in enumerate(matrices[::order]):", "    for i, matrix in enumerate(matrices):"),
    ("C02", "memory-mttkrp-drops-weights", "tensorly/tenalg/core_tenalg/mttkrp.py", "        return T.stack(mttkrp_parts, axis=1) * T.reshape(weights, (1, -1))", "        return T.stack(mttkrp_parts, axis=1)"),
    ("C02", "unknown-keyword", "tensorly/cp_tensor.py", "khatri_rao(factors, skip_matrix=0)", "khatri_rao(factors, skip=0)"),
    ("C02", "core-khatri-rao-double-first", "tensorly/tenalg/core_tenalg/_khatri_rao.py", "    for i, e in enumerate(matrices[1:]):", "    for i, e in enumerate(matrices):"),
    ("C02", "core-kronecker-squares", "tensorly/tenalg/core_tenalg/_kronecker.py", "            res = T.kron(res, matrix)", "            res = T.kron(res, T.kron(matrix, matrix))"),
    ("C02", "core-kronecker-skip-ignored", "tensorly/tenalg/core_tenalg/_kronecker.py", "    if skip_matrix is not None:\n        matrices = [matrices[i] for i in range(len(matrices)) if i != skip_matrix]\n\n    if reverse:", "    if reverse:"),
    ("C02", "einsum-khatri-rao-mask-dropped", "tensorly/tenalg/einsum_tenalg/_khatri_rao.py", "        matrices = matrices + [mask]\n", "        matrices = matrices + [T.ones(T.shape(mask))]\n"),
    ("C02", "einsum-khatri-rao-weights-twice", "tensorly/tenalg/einsum_tenalg/_khatri_rao.py", "        matrices = matrices + [weights]\n", "        matrices = matrices + [weights * weights]\n"),
    ("C02", "einsum-multi-mode-dot-skip-ignored", "tensorly/tenalg/einsum_tenalg/n_mode_product.py", "        if (skip is not None) and (i == skip):\n            # print(f'skipping {skip}')\n            continue\n", "        if (skip is not None) and (i == skip):\n            pass\n"),
    ("C02", "core-multi-mode-dot-applies-twice", "tensorly/tenalg/core_tenalg/n_mode_product.py", "            res = mode_dot(res, matrix_or_vec, mode - decrement)\n\n        if T.ndim", "            res = mode_dot(mode_dot(res, matrix_or_vec, mode - decrement), matrix_or_vec, mode - decrement)\n\n        if T.ndim"),
    ("C02", "einsum-kronecker-drops-last", "tensorly/tenalg/einsum_tenalg/_kronecker.py", "T.einsum(equation, *matrices[::order])", "T.einsum(equation, *matrices[::order][:-1])"),
    ("C02", "contraction-mode2-normalised-with-ndim1", "tensorly/tenalg/tenalg_utils.py", "            modes2[i] += ndim2", "            modes2[i] += ndim1"),
    ("C02", "contraction-shape2-indexed-by-modes1", "tensorly/tenalg/tenalg_utils.py", "        if shape1[modes1[i]] != shape2[modes2[i]]:", "        if shape1[modes1[i]] != shape2[modes1[i]]:"),
    ("C02", "contraction-modes-returned-swapped", "tensorly/tenalg/tenalg_utils.py", "    return modes1, modes2", "    return modes2, modes1"),
    ("C02", "tensordot-free-modes2-exclude-modes1", "tensorly/tenalg/core_tenalg/_batched_tensordot.py", "if i not in batch_modes2 + modes2]", "if i not in batch_modes2 + modes1]"),
    ("C02", "tensordot-transpose2-with-axes1", "tensorly/tenalg/core_tenalg/_batched_tensordot.py", "tl.transpose(tensor2, batch_modes2 + modes2 + new_modes2)", "tl.transpose(tensor2, batch_modes2 + modes2 + new_modes1)"),
    ("C02", "einsum-tensordot-remaining2-exclude-modes1", "tensorly/tenalg/einsum_tenalg/_batched_tensordot.py", "if i not in modes2 + batch_modes2", "if i not in modes1 + batch_modes2"),
    ("C01", "partial-fold-remove-by-value", "tensorly/base.py", "    mode_dim = transposed_shape.pop(skip_begin + mode)", "    mode_dim = shape[skip_begin + mode]\n    transposed_shape.remove(mode_dim)"),
    ("C17", "enter-inside-try", "tensorly/backend/__init__.py", "        cls.set_backend(backend, local_threadsafe=local_threadsafe)\n        try:\n            yield", "        try:\n            cls.set_backend(backend, local_threadsafe=local_threadsafe)\n            yield"),
    ("C03", "parafac2-orthonormality-one-sided", "tensorly/parafac2_tensor.py", "if T.max(T.abs(inner_product - T.eye(rank, **T.context(inner_product)))) > 1e-5:", "if T.max(inner_product - T.eye(rank, **T.context(inner_product))) > 1e-5:"),
    ("C04", "cp-normalize-scale-not-moved-to-weights", "tensorly/cp_tensor.py", "        weights = weights * scales\n        normalized_factors.append(factor / T.reshape(scales_non_zero, (1, -1)))", "        normalized_factors.append(factor / T.reshape(scales_non_zero, (1, -1)))"),
    ("C04", "cp-normalize-factor-not-divided", "tensorly/cp_tensor.py", "        normalized_factors.append(factor / T.reshape(scales_non_zero, (1, -1)))\n\n    return CPTensor((weights, normalized_factors))", "        normalized_factors.append(factor)\n\n    return CPTensor((weights, normalized_factors))"),
    ("C04", "cp-normalize-weights-dropped", "tensorly/cp_tensor.py", "            factor = factor * weights\n            weights = T.ones(rank, **T.context(factor))", "            weights = T.ones(rank, **T.context(factor))"),
    ("C04", "cp-normalize-squared-scale", "tensorly/cp_tensor.py", "        weights = weights * scales\n        normalized_factors.append(factor / T.reshape(scales_non_zero, (1, -1)))", "        weights = weights * scales * scales\n        normalized_factors.append(factor / T.reshape(scales_non_zero, (1, -1)))"),
    ("C04", "tucker-normalize-core-not-scaled", "tensorly/tucker_tensor.py", "        core = core * tl.reshape(\n            scales, (1,) * i + (-1,) + (1,) * (tl.ndim(core) - i - 1)\n        )\n", ""),
    ("C04", "parafac2-normalise-weights-dropped", "tensorly/parafac2_tensor.py", "        if weights is not None:\n            factors[0] = factors[0] * weights\n        weights = T.ones(rank, **T.context(factors[0]))", "        weights = T.ones(rank, **T.context(factors[0]))"),
    ("C04", "parafac2-normalise-scale-not-accumulated", "tensorly/parafac2_tensor.py", "        weights = weights * scales\n        scales_non_zero = T.where(\n            scales == 0, T.ones(T.shape(scales), **T.context(factors[0])), scales\n        )", "        weights = scales\n        scales_non_zero = T.where(\n            scales == 0, T.ones(T.shape(scales), **T.context(factors[0])), scales\n        )"),
    ("C04", "flip-sign-one-sided", "tensorly/cp_tensor.py", "        factors[jj] = factors[jj] * column_signs[np.newaxis, :]\n", ""),
    ("C04", "flip-sign-weights-sign-lost", "tensorly/cp_tensor.py", "    factors[mode] = factors[mode] * weight_signs[np.newaxis, :]\n    weights = T.abs(weights)", "    weights = T.abs(weights)"),
    ("C04", "flip-sign-zero-sign-unguarded", "tensorly/cp_tensor.py", "        column_signs = T.where(\n            column_signs == 0,\n            T.ones(T.shape(column_signs), **T.context(column_signs)),\n            column_signs,\n        )\n", ""),
    ("C04", "cp-mode-dot-contract-overwrites", "tensorly/cp_tensor.py", "        factors[mode] *= factor\n", "        factors[mode] = factor\n"),
    ("C04", "cp-mode-dot-operand-dropped", "tensorly/cp_tensor.py", "        factors[mode] = T.dot(matrix_or_vector, factors[mode])\n\n    if copy:", "        factors[mode] = T.dot(T.transpose(factors[mode]), factors[mode])\n\n    if copy:"),
    ("C04", "tucker-mode-dot-contract-drops-operand", "tensorly/tucker_tensor.py", "        core = mode_dot(core, tl.dot(matrix_or_vector, f), mode=mode)", "        core = mode_dot(core, tl.sum(f, axis=0), mode=mode)"),
    ("C07", "parafac-gram-without-weights", "tensorly/decomposition/_cp.py", "            pseudo_inverse = (\n                tl.reshape(weights, (-1, 1))\n                * pseudo_inverse\n                * tl.reshape(weights, (1, -1))\n            )\n            mttkrp = unfolding_dot_khatri_rao(tensor, (weights, factors), mode)\n\n            factor = tl.transpose(", "            mttkrp = unfolding_dot_khatri_rao(tensor, (weights, factors), mode)\n\n            factor = tl.transpose("),
    ("C07", "parafac-gram-over-all-modes", "tensorly/decomposition/_cp.py", "            for i, factor in enumerate(factors):\n                if i != mode:\n                    pseudo_inverse = pseudo_inverse * tl.dot(\n                        tl.conj(tl.transpose(factor)), factor\n                    )\n            pseudo_inverse += Id", "            for i, factor in enumerate(factors):\n                if True:\n                    pseudo_inverse = pseudo_inverse * tl.dot(\n                        tl.conj(tl.transpose(factor)), factor\n                    )\n            pseudo_inverse += Id"),
    ("C07", "parafac-mttkrp-ignores-weights", "tensorly/decomposition/_cp.py", "            mttkrp = unfolding_dot_khatri_rao(tensor, (weights, factors), mode)\n\n            factor = tl.transpose(", "            mttkrp = unfolding_dot_khatri_rao(tensor, (None, factors), mode)\n\n            factor = tl.transpose("),
    ("C07", "hals-gram-one-sided-weights", "tensorly/decomposition/_nn_cp.py", "            pseudo_inverse = (\n                tl.reshape(weights, (-1, 1))\n                * pseudo_inverse\n                * tl.reshape(weights, (1, -1))\n            )\n            mttkrp = unfolding_dot_khatri_rao(tensor, (weights, factors), mode)\n\n            if mode in nn_modes:", "            pseudo_inverse = tl.reshape(weights, (-1, 1)) * pseudo_inverse\n            mttkrp = unfolding_dot_khatri_rao(tensor, (weights, factors), mode)\n\n            if mode in nn_modes:"),
    ("C07", "hals-unconstrained-branch-solves-gram-squared", "tensorly/decomposition/_nn_cp.py", "                factor = tl.solve(tl.transpose(pseudo_inverse), tl.transpose(mttkrp))", "                factor = tl.solve(tl.dot(tl.transpose(pseudo_inverse), pseudo_inverse), tl.transpose(mttkrp))"),
    ("C07", "tr-als-normal-eq-rhs-without-design", "tensorly/decomposition/_tr_als.py", "                rhs_mat = tl.matmul(design_mat_tr, tensor_unf)\n                sol = tl.solve(gram_mat, rhs_mat)", "                rhs_mat = tensor_unf\n                sol = tl.solve(gram_mat, rhs_mat)"),
    ("C07", "tr-als-subchain-one-core-short", "tensorly/decomposition/_tr_als.py", "            for j in range(2, n_dim):\n                subchain_tensor = tl.tensordot(\n                    subchain_tensor, tr_decomp[(dim + j) % n_dim], axes=1\n                )\n            tr_idx = (", "            for j in range(3, n_dim):\n                subchain_tensor = tl.tensordot(\n                    subchain_tensor, tr_decomp[(dim + j) % n_dim], axes=1\n                )\n            tr_idx = ("),
    ("C07", "cp-regressor-rhs-without-design", "tensorly/regression/cp_regression.py", "                        T.solve(inv_term, T.dot(T.transpose(phi), y_reshaped)),\n                        (-1, self.weight_rank),", "                        T.solve(inv_term, y_reshaped),\n                        (-1, self.weight_rank),"),
    ("C07", "tucker-regressor-design-without-core", "tensorly/regression/tucker_regression.py", "                        T.dot(kronecker(W, skip_matrix=i), T.transpose(unfold(G, i))),", "                        kronecker(W, skip_matrix=i),"),
    ("C07", "cmtf-matrix-factor-not-solved", "tensorly/decomposition/_cmtf_als.py", "        V = tl.transpose(tl.lstsq(tensor_cp.factors[0], matrix)[0])", "        V = tl.transpose(tl.dot(tl.transpose(tensor_cp.factors[0]), matrix))"),
    ("C07", "parafac-linesearch-accepts-unconditionally", "tensorly/decomposition/_cp.py", "            if (new_rec_error / new_norm_tensor) < rec_errors[-1]:", "            if True:"),
    ("C07", "parafac-linesearch-comparison-reversed", "tensorly/decomposition/_cp.py", "            if (new_rec_error / new_norm_tensor) < rec_errors[-1]:", "            if (new_rec_error / new_norm_tensor) > rec_errors[-1]:"),
    ("C07", "parafac2-linesearch-comparison-reversed", "tensorly/decomposition/_parafac2.py", "        if ls_rec_error < rec_error:", "        if ls_rec_error > rec_error:"),
    ("C13", "hals-diagonal-term-without-gram-entry", "tensorly/solvers/nnls.py", "num = UtM[k, :] - tl.dot(UtU[k, :], V) + UtU[k, k] * V[k, :]", "num = UtM[k, :] - tl.dot(UtU[k, :], V) + V[k, :]"),
    ("C13", "hals-denominator-squared", "tensorly/solvers/nnls.py", "                den = UtU[k, k]\n", "                den = UtU[k, k] ** 2\n"),
    ("C13", "hals-ridge-in-numerator", "tensorly/solvers/nnls.py", "                if sparsity_coefficient is not None:\n                    num -= sparsity_coefficient\n                if ridge_coefficient is not None:\n                    den += 2 * ridge_coefficient", "                if sparsity_coefficient is not None:\n                    den += sparsity_coefficient\n                if ridge_coefficient is not None:\n                    num -= 2 * ridge_coefficient"),
    ("C13", "hals-init-scale-wrong-unit", "tensorly/solvers/nnls.py", "        scale = tl.sum(UtM * V) / tl.sum(UtU * tl.dot(V, tl.transpose(V)))", "        scale = tl.sum(UtM * V) / tl.sum(UtU * V)"),
    ("C13", "fista-step-without-learning-rate", "tensorly/solvers/nnls.py", "        x_new = x_update - lr * x_gradient", "        x_new = x_update - x_gradient"),
    ("C13", "fista-learning-rate-not-inverted", "tensorly/solvers/nnls.py", "        lr = 1 / (tl.truncated_svd(UtU)[1][0] + 2 * ridge_coef)", "        lr = tl.truncated_svd(UtU)[1][0] + 2 * ridge_coef"),
    ("C13", "fista-gradient-without-gram", "tensorly/solvers/nnls.py", "                -UtM + tl.dot(UtU, x_update) + sparsity_coef + 2 * ridge_coef * x_update\n", "                -UtM + x_update + sparsity_coef + 2 * ridge_coef * x_update\n"),
    ("C13", "active-set-gradient-without-gram", "tensorly/solvers/nnls.py", "    x_gradient = Utm - tl.dot(UtU, x_vec)\n    passive_set = x_vec > 0", "    x_gradient = Utm - x_vec\n    passive_set = x_vec > 0"),
    ("C13", "active-set-solves-transposed-roles", "tensorly/solvers/nnls.py", "            passive_solution = tl.solve(\n                UtU[passive_set, :][:, passive_set], Utm[passive_set]\n            )\n            indice_list = []\n            for i in range(tl.shape(support_vec)[0]):\n                if passive_set[i]:\n                    indice_list.append(i)\n                    support_vec = tl.index_update(\n                        support_vec,\n                        tl.index[int(i)],\n                        passive_solution[len(indice_list) - 1],\n                    )\n                else:\n                    support_vec = tl.index_update(support_vec, tl.index[int(i)], 0)\n        # Start from zeros", "            passive_solution = tl.dot(\n                UtU[passive_set, :][:, passive_set], Utm[passive_set]\n            )\n            indice_list = []\n            for i in range(tl.shape(support_vec)[0]):\n                if passive_set[i]:\n                    indice_list.append(i)\n                    support_vec = tl.index_update(\n                        support_vec,\n                        tl.index[int(i)],\n                        passive_solution[len(indice_list) - 1],\n                    )\n                else:\n                    support_vec = tl.index_update(support_vec, tl.index[int(i)], 0)\n        # Start from zeros"),
    ("C13", "admm-split-without-rho", "tensorly/solvers/admm.py", "            tl.transpose(UtM + rho * (x + dual_var)),", "            tl.transpose(UtM + (x + dual_var)),"),
    ("C13", "admm-unconstrained-returns-rhs", "tensorly/solvers/admm.py", "            x = tl.transpose(tl.solve(tl.transpose(UtU), tl.transpose(UtM)))\n            return x, x_split, dual_var", "            x = tl.transpose(tl.transpose(UtM))\n            return x, x_split, dual_var"),
    ("C12", "soft-threshold-squared-threshold", "tensorly/tenalg/proximal.py", "    return tl.sign(tensor) * tl.clip(tl.abs(tensor) - threshold, a_min=0)", "    return tl.sign(tensor) * tl.clip(tl.abs(tensor) - threshold**2, a_min=0)"),
    ("C12", "soft-threshold-times-tensor", "tensorly/tenalg/proximal.py", "    return tl.sign(tensor) * tl.clip(tl.abs(tensor) - threshold, a_min=0)", "    return tensor * tl.clip(tl.abs(tensor) - threshold, a_min=0)"),
    ("C12", "l2-prox-shrink-not-normalised", "tensorly/tenalg/proximal.py", "    return tensor - (tensor * regularizer / bigger_value)", "    return tensor - (tensor * regularizer)"),
    ("C12", "l2-square-prox-data-in-denominator", "tensorly/tenalg/proximal.py", "    return tensor / (1 + 2 * regularizer)", "    return tensor / (1 + 2 * regularizer * tl.norm(tensor))"),
    ("C12", "simplex-radius-squared", "tensorly/tenalg/proximal.py", "    cumsum_min_param_by_k = (tl.cumsum(tensor_sort, axis=0) - parameter) / tl.cumsum(", "    cumsum_min_param_by_k = (tl.cumsum(tensor_sort, axis=0) - parameter**2) / tl.cumsum("),
    ("C12", "simplex-shift-not-averaged", "tensorly/tenalg/proximal.py", "        return tl.clip(tensor - difference, a_min=0)\n    else:", "        return tl.clip(tensor - difference * tensor, a_min=0)\n    else:"),
    ("C12", "normalized-sparsity-divides-by-squared-norm", "tensorly/tenalg/proximal.py", "    return tensor_hard / tl.norm(tensor_hard)", "    return tensor_hard / tl.norm(tensor_hard) ** 2"),
    ("C12", "svd-thresholding-rescales-by-spectrum", "tensorly/tenalg/proximal.py", "    return tl.dot(U, tl.reshape(soft_thresholding(s, threshold), (-1, 1)) * V)", "    return tl.dot(U, tl.reshape(soft_thresholding(s, threshold) * s, (-1, 1)) * V)"),
    ("C12", "procrustes-keeps-singular-values", "tensorly/tenalg/proximal.py", "    U, _, V = tl.truncated_svd(matrix, n_eigenvecs=min(matrix.shape))\n    return tl.dot(U, V)", "    U, S, V = tl.truncated_svd(matrix, n_eigenvecs=min(matrix.shape))\n    return tl.dot(U * S, V)"),
    ("C12", "monotone-running-mean-not-divided", "tensorly/tenalg/proximal.py", "                    (cum_sum[i:, j] - cum_sum[i - 1, j])\n                    / tl.tensor(tl.arange(row - i) + 1, **tl.context(tensor)),", "                    (cum_sum[i:, j] - cum_sum[i - 1, j]) * cum_sum[i - 1, j],"),
    ("C20", "congruence-second-set-not-normalised", "tensorly/metrics/factors.py", "        mat2 = mat2 / T.norm(mat2, axis=0)\n", ""),
    ("C20", "congruence-normalised-by-squared-norm", "tensorly/metrics/factors.py", "        mat1 = mat1 / T.norm(mat1, axis=0)\n", "        mat1 = mat1 / T.norm(mat1, axis=0) ** 2\n"),
    ("C20", "correlation-index-without-normalisation", "tensorly/metrics/similarity.py", "    X_1 = [x1 / cn1 for x1, cn1 in zip(X_1, col_norm_1)]\n", ""),
    ("C20", "correlation-index-crossed-norms", "tensorly/metrics/similarity.py", "    X_2 = [x2 / cn2 for x2, cn2 in zip(X_2, col_norm_2)]", "    X_2 = [x2 / cn1 for x2, cn1 in zip(X_2, col_norm_1)]"),
    ("C20", "r2-denominator-not-squared", "tensorly/metrics/regression.py", "    return 1 - T.norm(X_predicted - X_original) ** 2.0 / T.norm(X_original) ** 2.0", "    return 1 - T.norm(X_predicted - X_original) ** 2.0 / T.norm(X_original)"),
    ("C20", "rmse-without-root", "tensorly/metrics/regression.py", "    return T.sqrt(MSE(y_true, y_pred, axis=axis))", "    return MSE(y_true, y_pred, axis=axis)"),
    ("C20", "mse-absolute-error", "tensorly/metrics/regression.py", "    return T.mean((y_true - y_pred) ** 2, axis=axis)", "    return T.mean(T.abs(y_true - y_pred), axis=axis)"),
    ("C20", "reflective-correlation-without-root", "tensorly/metrics/regression.py", "    return T.sum(y_true * y_pred, axis=axis) / T.sqrt(\n        T.sum(y_true**2, axis=axis) * T.sum(y_pred**2, axis=axis)\n    )", "    return T.sum(y_true * y_pred, axis=axis) / (\n        T.sum(y_true**2, axis=axis) * T.sum(y_pred**2, axis=axis)\n    )"),
    ("C20", "leverage-scores-not-squared", "tensorly/metrics/leverage_scores.py", "tl.sum(U[:, :num_rank] ** 2, axis=1)", "tl.sum(U[:, :num_rank] * S[0], axis=1)"),
    ("C05", "symeig-singular-values-not-rooted", "tensorly/tenalg/svd.py", "        S, V = tl.eigh(tl.dot(tl.transpose(matrix), matrix))\n        S = tl.sqrt(tl.clip(S, tl.eps(S.dtype)))", "        S, V = tl.eigh(tl.dot(tl.transpose(matrix), matrix))\n        S = tl.clip(S, tl.eps(S.dtype))"),
    ("C05", "symeig-left-vectors-not-normalised", "tensorly/tenalg/svd.py", "        U = tl.dot(matrix, V) / tl.reshape(S, (1, -1))", "        U = tl.dot(matrix, V)"),
    ("C05", "symeig-right-vectors-scaled-twice", "tensorly/tenalg/svd.py", "        V = tl.dot(tl.transpose(matrix), U / tl.reshape(S, (1, -1)))", "        V = tl.dot(tl.transpose(matrix), U / tl.reshape(S, (1, -1))) / tl.reshape(S, (1, -1))"),
    ("C05", "randomized-range-not-orthonormalised", "tensorly/tenalg/svd.py", "    Q, _ = tl.qr(tl.dot(A, Q))\n\n    # Perform power iterations", "    Q = tl.dot(A, Q)\n\n    # Perform power iterations"),
    ("C05", "randomized-left-vectors-times-spectrum", "tensorly/tenalg/svd.py", "        U = tl.dot(Q, U)\n", "        U = tl.dot(Q, U * S)\n"),
    ("C05", "flip-sign-only-left-vectors", "tensorly/tenalg/svd.py", "        V = V * signs[: tl.shape(V)[0]][:, None]\n", ""),
    ("C05", "flip-sign-v-based-only-right-vectors", "tensorly/tenalg/svd.py", "        U = U * signs[: tl.shape(U)[1]]\n", ""),
    ("C05", "dispatch-symeig-runs-truncated", "tensorly/tenalg/svd.py", "    elif method == \"symeig_svd\":\n        svd_fun = symeig_svd", "    elif method == \"symeig_svd\":\n        svd_fun = truncated_svd"),
    ("C09", "tt-svd-carries-v-without-spectrum", "tensorly/decomposition/_tt.py", "        unfolding = tl.reshape(S, (-1, 1)) * V\n\n    # Getting the last factor", "        unfolding = V\n\n    # Getting the last factor"),
    ("C09", "tt-svd-core-scaled-by-spectrum", "tensorly/decomposition/_tt.py", "        factors[k] = tl.reshape(U, (rank[k], tensor_size[k], rank[k + 1]))", "        factors[k] = tl.reshape(U * S, (rank[k], tensor_size[k], rank[k + 1]))"),
    ("C09", "tt-svd-rank-not-clipped-by-unfolding", "tensorly/decomposition/_tt.py", "        current_rank = min(n_row, n_column, rank[k + 1])", "        current_rank = min(n_row, rank[k + 1])"),
    ("C09", "tt-svd-requests-unclipped-rank", "tensorly/decomposition/_tt.py", "        U, S, V = svd_interface(unfolding, n_eigenvecs=current_rank, method=svd)", "        U, S, V = svd_interface(unfolding, n_eigenvecs=rank[k + 1], method=svd)"),
    ("C09", "tr-svd-first-core-scaled", "tensorly/decomposition/_tr_svd.py", "    factor = tl.reshape(U, (tensor_size[0], rank[0], rank[1]))", "    factor = tl.reshape(U * S, (tensor_size[0], rank[0], rank[1]))"),
    ("C09", "tr-svd-first-rank-unguarded", "tensorly/decomposition/_tr_svd.py", "    if rank[0] * rank[1] > min(n_row, n_column):", "    if False:"),
    ("C09", "hooi-core-from-untransposed-factors", "tensorly/decomposition/_tucker.py", "        core = multi_mode_dot(tensor, factors, modes=modes, transpose=True)\n\n        # The factors are orthonormal", "        core = multi_mode_dot(tensor * tl.norm(tensor, 2), factors, modes=modes, transpose=True)\n\n        # The factors are orthonormal"),
    ("C08", "tr-svd-rank-vector-rotated-as-a-whole", "tensorly/decomposition/_tr_svd.py", "        rank = rank[mode:-1] + rank[:mode] + [rank[mode]]\n", "        rank = rank[mode:] + rank[:mode]\n"),
    ("C05", "nndsvda-fill-with-signed-mean", "tensorly/tenalg/svd.py", "        avg = tl.mean(tl.abs(tensor))", "        avg = tl.mean(tensor)"),
    ("C05", "nndsvd-leading-pair-copied-as-is", "tensorly/tenalg/svd.py", "    W = tl.index_update(W, tl.index[:, 0], tl.sqrt(S[0]) * tl.abs(U[:, 0]))", "    W = tl.index_update(W, tl.index[:, 0], tl.sqrt(S[0]) * U[:, 0])"),
    ("C05", "nndsvd-negative-part-not-flipped", "tensorly/tenalg/svd.py", "        x_n, y_n = tl.abs(tl.clip(x, a_max=0.0)), tl.abs(tl.clip(y, a_max=0.0))", "        x_n, y_n = tl.clip(x, a_max=0.0), tl.abs(tl.clip(y, a_max=0.0))"),
    ("C05", "interface-flips-after-non-negative", "tensorly/tenalg/svd.py", "    if flip_sign:\n        U, V = svd_flip(U, V, u_based_decision=u_based_flip_sign)\n\n    if non_negative is not False and non_negative is not None:\n        U, V = make_svd_non_negative(matrix, U, S, V, non_negative)\n", "    if non_negative is not False and non_negative is not None:\n        U, V = make_svd_non_negative(matrix, U, S, V, non_negative)\n\n    if flip_sign:\n        U, V = svd_flip(U, V, u_based_decision=u_based_flip_sign)\n"),
    ("C04", "cp-mode-dot-contraction-rebinds-weights", "tensorly/cp_tensor.py", "        factor = T.dot(matrix_or_vector, factor)\n        mode = max(mode - 1, 0)\n        factors[mode] *= factor\n", "        weights = weights * T.dot(matrix_or_vector, factor)\n"),
    ("C04", "cp-mode-dot-result-factor-rebound", "tensorly/cp_tensor.py", "        factors[mode] = T.dot(matrix_or_vector, factors[mode])\n\n    if copy:\n        return", "        factors = factors[:mode] + [T.dot(matrix_or_vector, factors[mode])] + factors[mode + 1 :]\n\n    if copy:\n        return"),
    ("C12", "hard-threshold-selects-by-cutoff-value", "tensorly/tenalg/proximal.py", "            sorted_indices < number_of_non_zero,\n", "            tl.abs(tensor_vec) >= tl.sort(tl.abs(tensor_vec), axis=0)[-int(number_of_non_zero)],\n"),
    ("C20", "permute-factors-congruence-arguments-swapped", "tensorly/cp_tensor.py", "            ref_cp_tensor.factors, tensors_to_permute[i].factors\n", "            tensors_to_permute[i].factors, ref_cp_tensor.factors\n"),
    ("C20", "congruence-assignment-keyed-by-columns", "tensorly/metrics/factors.py", "    indices = dict(zip(row_ind, col_ind))", "    indices = dict(zip(col_ind, row_ind))"),
    ("C20", "congruence-cross-product-transposed", "tensorly/metrics/factors.py", "        all_congruences_list.append(T.dot(T.transpose(mat1), mat2))", "        all_congruences_list.append(T.dot(T.transpose(mat2), mat1))"),
    ("C13", "hals-docstring-increment-form", "tensorly/solvers/nnls.py", "                newV = tl.clip(num / den, a_min=epsilon)", "                newV = tl.clip(V[k, :] + (num - UtU[k, k] * V[k, :]) / den, a_min=epsilon)"),
    ("C07", "hals-docstring-increment-form", "tensorly/solvers/nnls.py", "                newV = tl.clip(num / den, a_min=epsilon)", "                newV = tl.clip(V[k, :] + (num - UtU[k, k] * V[k, :]) / den, a_min=epsilon)"),
    ("C13", "hals-correction-term-halved", "tensorly/solvers/nnls.py", "                num = UtM[k, :] - tl.dot(UtU[k, :], V) + UtU[k, k] * V[k, :]\n", "                num = UtM[k, :] - tl.dot(UtU[k, :], V) + 0.5 * UtU[k, k] * V[k, :]\n"),
    ("C14", "parafac2-weights-absorbed-only-when-normalising", "tensorly/decomposition/_parafac2.py", "        factors[1] = factors[1] * T.reshape(weights, (1, -1))\n        weights = T.ones(weights.shape, **tl.context(tensor_slices[0]))\n", "        if normalize_factors:\n            factors[1] = factors[1] * T.reshape(weights, (1, -1))\n            weights = T.ones(weights.shape, **tl.context(tensor_slices[0]))\n"),
    ("C14", "parafac2-weights-absorbed-after-projections", "tensorly/decomposition/_parafac2.py", "        factors[1] = factors[1] * T.reshape(weights, (1, -1))\n        weights = T.ones(weights.shape, **tl.context(tensor_slices[0]))\n\n        # Will we be performing a line search iteration?\n        if linesearch and iteration % 2 == 0 and iteration > 5:\n            line_iter = True\n            factors_last = [tl.copy(f) for f in factors]\n        else:\n            line_iter = False\n\n        projections = _compute_projections(\n            tensor_slices, factors, svd, random_state=rng\n        )\n", "        # Will we be performing a line search iteration?\n        if linesearch and iteration % 2 == 0 and iteration > 5:\n            line_iter = True\n            factors_last = [tl.copy(f) for f in factors]\n        else:\n            line_iter = False\n\n        projections = _compute_projections(\n            tensor_slices, factors, svd, random_state=rng\n        )\n        factors[1] = factors[1] * T.reshape(weights, (1, -1))\n        weights = T.ones(weights.shape, **tl.context(tensor_slices[0]))\n"),
    ("C15", "initialize-tucker-abs-skipped-for-nonneg-init", "tensorly/decomposition/_tucker.py", "factors = [tl.abs(f) for f in factors]", "factors = [f if tl.all(f >= 0) else tl.abs(f) for f in factors]"),
    ("C01", "partial-unfold-trailing-slice-starts-late", "tensorly/base.py", "    if skip_end:\n        new_shape += [tensor.shape[-i] for i in range(skip_end, 0, -1)]\n", "    new_shape += list(tensor.shape)[skip_begin + len(tensor.shape) - skip_end :]\n"),
    ("C01", "partial-unfold-leading-off-by-one", "tensorly/base.py", "        new_shape = [tensor.shape[i] for i in range(skip_begin)] + new_shape", "        new_shape = [tensor.shape[i] for i in range(skip_begin - 1)] + new_shape"),
    ("C13", "active-set-warm-start-shortcut", "tensorly/solvers/nnls.py", "    support_vec = tl.zeros(tl.shape(x_vec), **tl.context(x_vec))\n\n    for iteration in range(n_iter_max):", "    support_vec = tl.zeros(tl.shape(x_vec), **tl.context(x_vec))\n\n    if x is not None and tl.any(active_set) and tl.max(x_gradient[active_set]) <= tol:\n        return x_vec\n\n    for iteration in range(n_iter_max):"),
    ("C07", "cp-regressor-output-modes-without-ridge", "tensorly/regression/cp_regression.py", "                    inv_term = T.dot(T.transpose(phi), phi) + self.reg_W * T.eye(\n                        phi.shape[1], **T.context(X)\n                    )\n                    W[i] = T.transpose(", "                    inv_term = T.dot(T.transpose(phi), phi)\n                    W[i] = T.transpose("),
    ("C07", "tucker-regressor-core-without-ridge", "tensorly/regression/tucker_regression.py", "                    T.dot(T.transpose(phi), phi)\n                    + self.reg_W * T.tensor(np.eye(phi.shape[1]), **T.context(X)),", "                    T.dot(T.transpose(phi), phi),"),
    ("C05", "flip-v-based-argmax-over-wrong-axis", "tensorly/tenalg/svd.py", "        max_abs_rows = tl.argmax(tl.abs(V), axis=1)", "        max_abs_rows = tl.argmax(tl.abs(V), axis=0)"),
    ("C05", "flip-sign-of-max-plus-min", "tensorly/tenalg/svd.py", "        max_abs_cols = tl.argmax(tl.abs(U), axis=0)\n        signs = tl.sign(\n            tl.tensor(\n                [U[i, j] for (i, j) in zip(max_abs_cols, range(tl.shape(U)[1]))],\n                **tl.context(U),\n            )\n        )", "        signs = tl.sign(tl.max(U, axis=0) + tl.min(U, axis=0))"),
    ("C05", "flip-argmax-without-abs", "tensorly/tenalg/svd.py", "        max_abs_cols = tl.argmax(tl.abs(U), axis=0)", "        max_abs_cols = tl.argmax(U, axis=0)"),
    ("C03", "tucker-norm-read-off-the-core", "tensorly/tucker_tensor.py", "    def to_vec(self):\n        return tucker_to_vec(self)\n", "    def to_vec(self):\n        return tucker_to_vec(self)\n\n    def norm(self):\n        return tl.norm(self.core)\n"),
    ("C06", "hals-last-swept-mode-by-position", "tensorly/decomposition/_nn_cp.py", "            if normalize_factors and mode != modes[-1]:", "            if normalize_factors and mode != len(modes) - 1:"),
    ("C12", "monotone-decreasing-flips-all-axes-on-entry", "tensorly/tenalg/proximal.py", "    tensor_mon = tl.copy(tensor)\n    if decreasing:\n        tensor_mon = tl.flip(tensor_mon, axis=0)", "    tensor_mon = tl.copy(tensor)\n    if decreasing:\n        tensor_mon = tl.flip(tensor_mon)"),
    ("C20", "correlation-index-conjugates-the-product", "tensorly/metrics/similarity.py", "    c_prod_mtx = tl.abs(tl.matmul(tl.conj(tl.transpose(x1)), x2))", "    c_prod_mtx = tl.abs(tl.conj(tl.matmul(tl.transpose(x1), x2)))"),
    ("C19", "plsr-predict-centres-with-batch-mean", "tensorly/regression/cp_plsr.py", "        X = T.copy(X)\n        X -= self.X_mean_\n        X_projection", "        X = T.copy(X)\n        X -= T.mean(X, axis=0)\n        X_projection"),
    ("C02", "batched-outer-stale-mode-count", "tensorly/tenalg/core_tenalg/outer_product.py", "            res = tl.reshape(res, shape_1) * tl.reshape(tensor, shape_2)\n        else:\n            res = tensor\n\n        shape_res = tl.shape(res)\n        size_res = len(shape_res) - 1\n", "            res = tl.reshape(res, shape_1) * tl.reshape(tensor, shape_2)\n            shape_res = shape_res + shape[1:]\n            size_res += 1\n        else:\n            res = tensor\n            shape_res = tl.shape(res)\n            size_res = len(shape_res) - 1\n"),
    ("C02", "outer-ones-padding-one-short", "tensorly/tenalg/core_tenalg/outer_product.py", "            shape_2 = (1,) * sres + shape\n", "            shape_2 = (1,) * (sres - 1) + shape\n"),
    ("C03", "cp-ctor-skips-validation", "tensorly/cp_tensor.py", "        shape, rank = _validate_cp_tensor(cp_tensor)\n        weights, factors = cp_tensor\n", "        weights, factors = cp_tensor\n        shape, rank = tuple(f.shape[0] for f in factors), factors[0].shape[1]\n"),
    ("C03", "tt-vec-of-other-family", "tensorly/tt_tensor.py", "    return tl.tensor_to_vec(tt_to_tensor(factors))", "    return tl.tensor_to_vec(tt_to_tensor(factors[::-1]))"),
    ("C03", "tucker-unfolded-wrong-mode", "tensorly/tucker_tensor.py", "        mode,\n    )", "        mode + 1,\n    )"),
    ("C03", "cp-vec-drops-weights", "tensorly/cp_tensor.py", "    return tensor_to_vec(cp_to_tensor(cp_tensor))", "    return tensor_to_vec(cp_to_tensor((None, cp_tensor[1])))"),
    ("C03", "method-calls-other-view", "tensorly/tr_tensor.py", "    def to_vec(self):\n        return tr_to_vec(self)", "    def to_vec(self):\n        return tr_to_unfolded(self, 0)"),
    ("C06", "parafac-error-before-sweep-callback", "tensorly/decomposition/_cp.py", "        if tol or return_errors or callback is not None:\n            rec_error = unnorml_rec_error / norm_tensor", "        if (tol or return_errors or callback is not None) and not line_iter:\n            rec_error = unnorml_rec_error / norm_tensor"),
    ("C06", "parafac-callback-needs-tol", "tensorly/decomposition/_cp.py", "        if (tol or return_errors or callback is not None) and not line_iter:\n            unnorml_rec_error, tensor, norm_tensor = error_calc(", "        if (tol or return_errors) and not line_iter:\n            unnorml_rec_error, tensor, norm_tensor = error_calc("),
    ("C06", "randomised-callback-arity", "tensorly/decomposition/_cp.py", "        callback(CPTensor((weights, factors)), rec_error)\n", "        callback(CPTensor((weights, factors)))\n"),
    ("C06", "parafac2-sqrt-unguarded", "tensorly/decomposition/_parafac2.py", "tl.sqrt(tl.abs(norm_X_sq - 2 * inner_product + norm_cmf_sq))", "tl.sqrt(norm_X_sq - 2 * inner_product + norm_cmf_sq)"),
    ("C06", "hals-last-mode-fixed", "tensorly/decomposition/_nn_cp.py", "        fixed_modes = [mode for mode in fixed_modes if mode != tl.ndim(tensor) - 1]\n\n    if nn_modes == \"all\":", "        pass\n\n    if nn_modes == \"all\":"),
    ("C06", "cmtf-break-before-append", "tensorly/decomposition/_cmtf_als.py", "        rec_errors.append(error_new)\n\n        if iteration > 0 and (\n            tl.abs(error_new - error_old) / error_old <= tol or error_new < tol\n        ):\n            break\n", "        if iteration > 0 and (\n            tl.abs(error_new - error_old) / error_old <= tol or error_new < tol\n        ):\n            break\n        rec_errors.append(error_new)\n"),
    ("C06", "nn-parafac-absolute-error", "tensorly/decomposition/_nn_cp.py", "            rec_error = unnorml_rec_error / norm_tensor\n            rec_errors.append(rec_error)", "            rec_error = unnorml_rec_error\n            rec_errors.append(rec_error)"),
    ("C06", "tucker-error-before-core", "tensorly/decomposition/_tucker.py", "        core = multi_mode_dot(tensor, factors, modes=modes, transpose=True)\n\n        # The factors are orthonormal and therefore do not affect the reconstructed tensor's norm\n        rec_error = sqrt(tl.abs(norm_tensor**2 - tl.norm(core, 2) ** 2)) / norm_tensor\n        rec_errors.append(rec_error)", "        rec_error = sqrt(tl.abs(norm_tensor**2 - tl.norm(core, 2) ** 2)) / norm_tensor\n        rec_errors.append(rec_error)\n        core = multi_mode_dot(tensor, factors, modes=modes, transpose=True)\n"),
    ("C06", "tr-als-error-before-sweep", "tensorly/decomposition/_tr_als.py", "            error = tl.norm(tl.matmul(design_mat, sol) - tensor_unf)\n            rel_error = error / tensor_norm\n            rec_errors.append(rel_error)", "            rec_errors.append(rel_error)\n            error = tl.norm(tl.matmul(design_mat, sol) - tensor_unf)\n            rel_error = error / tensor_norm"),
    ("C08", "parafac-no-final-normalise", "tensorly/decomposition/_cp.py", "    if normalize_factors:\n        # also reached through the convergence / callback break\n        weights, factors = cp_normalize((weights, factors))\n", ""),
    ("C08", "nn-tucker-no-final-normalise", "tensorly/decomposition/_tucker.py", "    if normalize_factors:\n        # also reached through the convergence break\n        nn_core, nn_factors = tucker_normalize((nn_core, nn_factors))\n    tensor = TuckerTensor((nn_core, nn_factors))\n    if return_errors:\n        return tensor, rec_errors\n    else:\n        return tensor\n\n\ndef non_negative_tucker_hals", "    tensor = TuckerTensor((nn_core, nn_factors))\n    if return_errors:\n        return tensor, rec_errors\n    else:\n        return tensor\n\n\ndef non_negative_tucker_hals"),
    ("C08", "hooi-core-before-factors", "tensorly/decomposition/_tucker.py", "            factors[index] = eigenvecs\n\n        core = multi_mode_dot(tensor, factors, modes=modes, transpose=True)", "            factors[index] = eigenvecs\n            core = multi_mode_dot(tensor, factors, modes=modes, transpose=True)\n        factors[0] = factors[0] * 1"),
    ("C08", "parafac2-no-final-normalise", "tensorly/decomposition/_parafac2.py", "    if normalize_factors:\n        # also when no sweep was run (n_iter_max=0): the initialisation is returned normalised\n        weights, factors = cp_normalize((weights, factors))\n", ""),  # reverts /repo 4a0ff4c; the older mutant that moved the in-loop normalisation behind the break became equivalent with that repair
    ("C11", "cross-l1-l2", "tensorly/solvers/admm.py", "            l1_reg=l1_reg,\n            l2_reg=l2_reg,", "            l1_reg=l2_reg,\n            l2_reg=l1_reg,"),
    ("C11", "drop-simplex-forward", "tensorly/decomposition/_constrained_cp.py", "                simplex=simplex,\n                normalized_sparsity=normalized_sparsity,\n                soft_sparsity=soft_sparsity,\n                smoothness=smoothness,\n                monotonicity=monotonicity,\n                hard_sparsity=hard_sparsity,\n                tol=tol_inner,", "                normalized_sparsity=normalized_sparsity,\n                soft_sparsity=soft_sparsity,\n                smoothness=smoothness,\n                monotonicity=monotonicity,\n                hard_sparsity=hard_sparsity,\n                tol=tol_inner,"),
    ("C11", "swap-table-rows", "tensorly/tenalg/proximal.py", "        \"unimodality\",\n        \"normalize\",", "        \"normalize\",\n        \"unimodality\","),
    ("C11", "admm-returns-split", "tensorly/solvers/admm.py", "            break\n    return x, x_split, dual_var\n", "            break\n    return tl.transpose(x_split), x_split, dual_var\n"),
    ("C11", "wrong-order-index", "tensorly/decomposition/_constrained_cp.py", "                order=mode,", "                order=0,"),
    ("C11", "nonneg-handler-upper-bound", "tensorly/tenalg/proximal.py", "        return tl.clip(tensor, a_min=0)", "        return tl.clip(tensor, 0, tl.max(tensor))"),
    ("C11", "double-constraint-not-rejected", "tensorly/tenalg/proximal.py", "                    if mode in modes_constrained:\n                        raise ValueError(\n                            \"You selected two constraints for the same mode. Consider to check your input\"\n                        )\n                    modes_constrained.add(mode)\n            elif", "                    modes_constrained.add(mode)\n            elif"),
    ("C11", "dispatch-wrong-operator", "tensorly/tenalg/proximal.py", "        return monotonicity_prox(tensor)", "        return unimodality_prox(tensor)"),
    ("C11", "init-skips-prox", "tensorly/decomposition/_constrained_cp.py", "    for i in range(n_modes):\n        factors[i] = proximal_operator(", "    for i in range(n_modes - 1):\n        factors[i] = proximal_operator("),
    ("C01", "matricize-fast-path-ignores-columns", "tensorly/base.py", "    return tl.reshape(\n        tl.transpose(tensor, row_indices + column_indices), (row_size, column_size)\n    )", "    if row_indices == list(range(len(row_indices))):\n        return tl.reshape(tensor, (row_size, column_size))\n    return tl.reshape(\n        tl.transpose(tensor, row_indices + column_indices), (row_size, column_size)\n    )"),
    ("C11", "dict-spec-registered-by-position", "tensorly/tenalg/proximal.py", "                parameters[modes[i]] = list_or_dict_or_float[modes[i]]", "                parameters[i] = list_or_dict_or_float[modes[i]]"),
    ("C06", "parafac-accepted-jump-keeps-old-error", "tensorly/decomposition/_cp.py", "                unnorml_rec_error = new_rec_error\n", "                unnorml_rec_error = unnorml_rec_error\n"),
    ("C18", "numpy-scalar-jump", "tensorly/decomposition/_cp.py", "jump = iteration ** (1.0 / acc_pow)", "jump = np.power(iteration, 1.0 / acc_pow)"),
    ("C02", "kronecker-reverse-before-skip", "tensorly/tenalg/core_tenalg/_kronecker.py", "    if skip_matrix is not None:\n        matrices = [matrices[i] for i in range(len(matrices)) if i != skip_matrix]\n", "    if reverse:\n        matrices = matrices[::-1]\n        reverse = False\n    if skip_matrix is not None:\n        matrices = [matrices[i] for i in range(len(matrices)) if i != skip_matrix]\n"),
    ("C02", "mttkrp-weights-twice", "tensorly/tenalg/core_tenalg/mttkrp.py", "    mttkrp = T.dot(unfold(tensor, mode), T.conj(kr_factors))\n    return mttkrp", "    mttkrp = T.dot(unfold(tensor, mode), T.conj(kr_factors))\n    return mttkrp if weights is None else mttkrp * T.reshape(weights, (1, -1))"),
    ("C02", "einsum-mttkrp-keeps-own-mode", "tensorly/tenalg/einsum_tenalg/mttkrp.py", "    factors = [tl.conj(f) for (i, f) in enumerate(factors) if i != mode]", "    factors = [tl.conj(f) for (i, f) in enumerate(factors)]"),
    ("C03", "cp-unfolded-weights-twice", "tensorly/cp_tensor.py", "            factors[mode] * weights, T.transpose(khatri_rao(factors, skip_matrix=mode))", "            factors[mode] * weights, T.transpose(khatri_rao(factors, weights=weights, skip_matrix=mode))"),
    ("C03", "cp-norm-forgets-weights-square", "tensorly/cp_tensor.py", "        norm = norm * (T.reshape(weights, (-1, 1)) * T.reshape(weights, (1, -1)))", "        norm = norm * T.reshape(weights, (-1, 1))"),
    ("C03", "tucker-to-tensor-core-twice", "tensorly/tucker_tensor.py", None, None),
    ("C03", "tt-to-tensor-skips-first-core", "tensorly/tt_tensor.py", "    for factor in factors[1:]:", "    for factor in factors[2:]:"),
    ("C03", "parafac2-slice-forgets-projection", "tensorly/parafac2_tensor.py", "    B_i = T.dot(projections[slice_idx], B)", "    B_i = B"),
    ("C19", "cp-weight-tensor-before-update", "tensorly/regression/cp_regression.py", None, None),
    ("C19", "tucker-vec-from-stale-core", "tensorly/regression/tucker_regression.py", "        self.vec_W_ = tucker_to_vec((G, W))", "        self.vec_W_ = tensor_to_vec(weight_tensor_) if False else tucker_to_vec((G, W[::-1]))"),
    ("C19", "predict-uses-unexposed", "tensorly/regression/tucker_regression.py", "        return T.dot(partial_tensor_to_vec(X), self.vec_W_)", "        return T.dot(partial_tensor_to_vec(X), self.vec_W)"),
    ("C16", "ctor-without-seed", "tensorly/decomposition/_parafac2.py", "norm_tensor, svd, verbose=verbose, nn_modes=nn_modes, random_state=rng", "norm_tensor, svd, verbose=verbose, nn_modes=nn_modes"),
    ("C16", "seed-map-reseeds-global", "tensorly/backend/core.py", "            return np.random.RandomState(seed)", "            np.random.seed(seed)\n            return np.random.mtrand._rand"),
    ("C10", "active-set-upper-bound", "tensorly/solvers/nnls.py", "        x_vec = tl.clip(support_vec, a_min=0)", "        x_vec = tl.clip(support_vec, 0, tl.max(support_vec))"),
    ("C10", "parafac2-ls-no-clip-mode2", "tensorly/decomposition/_parafac2.py", "                factors_ls[2] = tl.clip(factors_ls[2], 0)", "                factors_ls[2] = factors_ls[2]"),
    ("C10", "fista-where-swapped", "tensorly/solvers/nnls.py", "            x_new = tl.where(x_new < epsilon, epsilon, x_new)", "            x_new = tl.where(x_new < epsilon, x_new, epsilon)"),
    ("C14", "all-fixed-shortcut-renormalises", "tensorly/decomposition/_cp.py", "        cp_tensor = CPTensor(\n            (weights, factors)\n        )  # No need to run optimization algorithm, just return the initialization\n        return cp_tensor", "        cp_tensor = cp_normalize(CPTensor((weights, factors)))\n        return cp_tensor"),
    ("C14", "tucker-fixed-factor-copied-with-change", "tensorly/decomposition/_tucker.py", "            factors.insert(e, factors_fixed[i])", "            factors.insert(e, factors_fixed[i] * 1.0)"),
    ("C14", "modes-list-unfiltered", "tensorly/decomposition/_nn_cp.py", "    modes = [mode for mode in range(n_modes) if mode not in fixed_modes]", "    modes = [mode for mode in range(n_modes)]"),
]


def gen_textual() -> List[Variant]:
    out = []
    cache = {}
    for prop, vid, rel, old, new in TEXTUAL:
        if old is None:
            continue
        if rel not in cache:
            cache[rel] = _read(rel)
        s = cache[rel]
        full = f"{prop}:text:{vid}"
        if s.count(old) != 1:
            out.append(Variant(prop, full, "stale", {}, f"anchor text occurs {s.count(old)} times in {rel}"))
            continue
        t = s.replace(old, new)
        try:
            compile(t, rel, "exec", dont_inherit=True)
        except SyntaxError as e:
            out.append(Variant(prop, full, "stale", {}, f"variant does not compile: {e}"))
            continue
        out.append(Variant(prop, full, "mutant", {rel: t}, vid))
    # C19: weight_tensor_ computed before the last factor update
    rel = "tensorly/regression/cp_regression.py"
    s = _read(rel)
    line = "            weight_tensor_ = cp_to_tensor((weights, W))\n"
    head = "            for i in range(len(W)):\n"
    if s.count(line) == 1 and s.count(head) == 1:
        t = s.replace(line, "", 1).replace(head, line + head, 1)
        out.append(Variant("C19", "C19:text:cp-weight-tensor-before-update", "mutant", {rel: t}, "weight_tensor_ computed before the sweep"))
    else:
        out.append(Variant("C19", "C19:text:cp-weight-tensor-before-update", "stale", {}, "anchor moved"))
    return out


TEXTUAL_TWINS = [
    ('C05', 'nndsvd-guard-operands-swapped', 'tensorly/tenalg/svd.py', '        elif m_n > 0:\n', '        elif 0 < m_n:\n'),
    ('C04', 'cp-normalize-guard-as-positive-test', 'tensorly/cp_tensor.py', '        scales_non_zero = T.where(\n            scales == 0, T.ones(T.shape(scales), **T.context(factor)), scales\n        )\n        weights = weights * scales\n', '        scales_non_zero = T.where(\n            scales > 0, scales, T.ones(T.shape(scales), **T.context(factor))\n        )\n        weights = weights * scales\n'),
    ('C04', 'cp-normalize-guard-zero-on-the-left', 'tensorly/cp_tensor.py', '        scales_non_zero = T.where(\n            scales == 0, T.ones(T.shape(scales), **T.context(factor)), scales\n        )\n        weights = weights * scales\n', '        scales_non_zero = T.where(\n            0 == scales, T.ones(T.shape(scales), **T.context(factor)), scales\n        )\n        weights = weights * scales\n'),
    ('C05', 'symeig-floor-by-keyword', 'tensorly/tenalg/svd.py', '        S = tl.sqrt(tl.clip(S, tl.eps(S.dtype)))\n        V = tl.dot(tl.transpose(matrix), U / tl.reshape(S, (1, -1)))', '        floor = tl.eps(S.dtype)\n        S = tl.sqrt(tl.clip(S, a_min=floor))\n        V = tl.dot(tl.transpose(matrix), U / tl.reshape(S, (1, -1)))'),
    ('C14', 'tucker-user-init-copied', 'tensorly/decomposition/_tucker.py', '        (core, factors) = init\n        factors = list(factors)\n', '        core, user_factors = init\n        factors = [f for f in user_factors]\n'),
    ('C12', 'memo-keyed-by-all-inputs', 'tensorly/tenalg/proximal.py', '    diag_matrix = tl.tensor(\n        tl.diag(2 * regularizer * tl.ones(tl.shape(tensor)[0]) + 1)\n        + tl.diag(-regularizer * tl.ones(tl.shape(tensor)[0] - 1), k=-1)\n        + tl.diag(-regularizer * tl.ones(tl.shape(tensor)[0] - 1), k=1),\n        **tl.context(tensor)\n    )\n    return tl.solve(diag_matrix, tensor)\n', '    key = (tl.get_backend(), tl.shape(tensor)[0], float(regularizer), str(tl.context(tensor)))\n    diag_matrix = _SYSTEMS.get(key)\n    if diag_matrix is None:\n        diag_matrix = tl.tensor(\n            tl.diag(2 * regularizer * tl.ones(tl.shape(tensor)[0]) + 1)\n            + tl.diag(-regularizer * tl.ones(tl.shape(tensor)[0] - 1), k=-1)\n            + tl.diag(-regularizer * tl.ones(tl.shape(tensor)[0] - 1), k=1),\n            **tl.context(tensor)\n        )\n        _SYSTEMS[key] = diag_matrix\n    return tl.solve(diag_matrix, tensor)\n\n\n_SYSTEMS = {}\n'),
    ('C18', 'memo-keyed-by-all-inputs', 'tensorly/tenalg/proximal.py', '    diag_matrix = tl.tensor(\n        tl.diag(2 * regularizer * tl.ones(tl.shape(tensor)[0]) + 1)\n        + tl.diag(-regularizer * tl.ones(tl.shape(tensor)[0] - 1), k=-1)\n        + tl.diag(-regularizer * tl.ones(tl.shape(tensor)[0] - 1), k=1),\n        **tl.context(tensor)\n    )\n    return tl.solve(diag_matrix, tensor)\n', '    key = (tl.get_backend(), tl.shape(tensor)[0], float(regularizer), str(tl.context(tensor)))\n    diag_matrix = _SYSTEMS.get(key)\n    if diag_matrix is None:\n        diag_matrix = tl.tensor(\n            tl.diag(2 * regularizer * tl.ones(tl.shape(tensor)[0]) + 1)\n            + tl.diag(-regularizer * tl.ones(tl.shape(tensor)[0] - 1), k=-1)\n            + tl.diag(-regularizer * tl.ones(tl.shape(tensor)[0] - 1), k=1),\n            **tl.context(tensor)\n        )\n        _SYSTEMS[key] = diag_matrix\n    return tl.solve(diag_matrix, tensor)\n\n\n_SYSTEMS = {}\n'),
    ('C11', 'memo-keyed-by-all-inputs', 'tensorly/tenalg/proximal.py', '    diag_matrix = tl.tensor(\n        tl.diag(2 * regularizer * tl.ones(tl.shape(tensor)[0]) + 1)\n        + tl.diag(-regularizer * tl.ones(tl.shape(tensor)[0] - 1), k=-1)\n        + tl.diag(-regularizer * tl.ones(tl.shape(tensor)[0] - 1), k=1),\n        **tl.context(tensor)\n    )\n    return tl.solve(diag_matrix, tensor)\n', '    key = (tl.get_backend(), tl.shape(tensor)[0], float(regularizer), str(tl.context(tensor)))\n    diag_matrix = _SYSTEMS.get(key)\n    if diag_matrix is None:\n        diag_matrix = tl.tensor(\n            tl.diag(2 * regularizer * tl.ones(tl.shape(tensor)[0]) + 1)\n            + tl.diag(-regularizer * tl.ones(tl.shape(tensor)[0] - 1), k=-1)\n            + tl.diag(-regularizer * tl.ones(tl.shape(tensor)[0] - 1), k=1),\n            **tl.context(tensor)\n        )\n        _SYSTEMS[key] = diag_matrix\n    return tl.solve(diag_matrix, tensor)\n\n\n_SYSTEMS = {}\n'),
    # behaviour-preserving rewrites: the check must stay silent
    ("C03", "parafac2-orthonormality-by-norm", "tensorly/parafac2_tensor.py", "if T.max(T.abs(inner_product - T.eye(rank, **T.context(inner_product)))) > 1e-5:", "if T.norm(inner_product - T.eye(rank, **T.context(inner_product))) > 1e-5:"),
    ("C03", "parafac2-orthonormality-local-abs", "tensorly/parafac2_tensor.py", "        if T.max(T.abs(inner_product - T.eye(rank, **T.context(inner_product)))) > 1e-5:", "        deviation = T.abs(inner_product - T.eye(rank, **T.context(inner_product)))\n        if T.max(deviation) > 1e-5:"),
    ("C02", "contraction-modes-normalised-by-comprehension", "tensorly/tenalg/tenalg_utils.py", "        if modes1[i] < 0:\n            modes1[i] += ndim1\n        if modes2[i] < 0:\n            modes2[i] += ndim2\n", "        pass\n    modes1 = [m + ndim1 if m < 0 else m for m in modes1]\n    modes2 = [m % ndim2 for m in modes2]\n"),
    ("C02", "einsum-tensordot-letter-offset", "tensorly/tenalg/einsum_tenalg/_batched_tensordot.py", "chr(start + i + order_t1)", "chr(start + (i + order_t1))"),
    ("C17", "context-flag-guarded-restore", "tensorly/backend/__init__.py", "        cls.set_backend(backend, local_threadsafe=local_threadsafe)\n        try:\n            yield\n        finally:\n            cls.set_backend(_old_backend, local_threadsafe=local_threadsafe)", "        entered = False\n        try:\n            cls.set_backend(backend, local_threadsafe=local_threadsafe)\n            entered = True\n            yield\n        finally:\n            if entered:\n                cls.set_backend(_old_backend, local_threadsafe=local_threadsafe)"),
    ("C04", "cp-normalize-commuted-product", "tensorly/cp_tensor.py", "        weights = weights * scales\n        normalized_factors", "        weights = scales * weights\n        normalized_factors"),
    ("C04", "tucker-normalize-scale-first", "tensorly/tucker_tensor.py", "        normalized_factors.append(factor / tl.reshape(scales_non_zero, (1, -1)))", "        unit_factor = factor / tl.reshape(scales_non_zero, (1, -1))\n        normalized_factors.append(unit_factor)"),
    ("C04", "flip-sign-guard-on-receiving-factor-too", "tensorly/cp_tensor.py", "    weight_signs = T.sign(weights)\n", "    weight_signs = T.sign(weights)\n    weight_signs = T.where(weight_signs == 0, T.ones(T.shape(weight_signs), **T.context(weight_signs)), weight_signs)\n"),
    ("C07", "cp-regressor-ridge-term-named", "tensorly/regression/cp_regression.py", "                    inv_term = T.dot(T.transpose(phi), phi) + self.reg_W * T.eye(\n                        phi.shape[1], **T.context(X)\n                    )\n                    W[i] = T.transpose(", "                    ridge = self.reg_W * T.eye(phi.shape[1], **T.context(X))\n                    inv_term = T.dot(T.transpose(phi), phi) + ridge\n                    W[i] = T.transpose("),
    ("C07", "parafac-gram-weights-commuted", "tensorly/decomposition/_cp.py", "                tl.reshape(weights, (-1, 1))\n                * pseudo_inverse\n                * tl.reshape(weights, (1, -1))\n            )\n            mttkrp = unfolding_dot_khatri_rao(tensor, (weights, factors), mode)\n\n            factor = tl.transpose(", "                pseudo_inverse\n                * tl.reshape(weights, (-1, 1))\n                * tl.reshape(weights, (1, -1))\n            )\n            mttkrp = unfolding_dot_khatri_rao(tensor, (weights, factors), mode)\n\n            factor = tl.transpose("),
    ("C07", "parafac-linesearch-guard-flipped-operands", "tensorly/decomposition/_cp.py", "            if (new_rec_error / new_norm_tensor) < rec_errors[-1]:", "            if rec_errors[-1] > (new_rec_error / new_norm_tensor):"),
    ("C07", "tr-als-normal-eq-named-transpose", "tensorly/decomposition/_tr_als.py", "                rhs_mat = tl.matmul(design_mat_tr, tensor_unf)", "                rhs_mat = tl.dot(design_mat_tr, tensor_unf)"),
    ("C13", "hals-increment-form-with-full-denominator", "tensorly/solvers/nnls.py", "                newV = tl.clip(num / den, a_min=epsilon)", "                newV = tl.clip(V[k, :] + (num - den * V[k, :]) / den, a_min=epsilon)"),
    ("C13", "active-set-rejects-empty-problem-early", "tensorly/solvers/nnls.py", "    support_vec = tl.zeros(tl.shape(x_vec), **tl.context(x_vec))\n\n    for iteration in range(n_iter_max):", "    support_vec = tl.zeros(tl.shape(x_vec), **tl.context(x_vec))\n\n    if tl.shape(UtU)[0] == 0:\n        raise ValueError(\"empty problem\")\n\n    for iteration in range(n_iter_max):"),
    ("C13", "hals-update-as-increment", "tensorly/solvers/nnls.py", "                newV = tl.clip(num / den, a_min=epsilon)", "                step = (num - den * V[k, :]) / den\n                newV = tl.clip(V[k, :] + step, a_min=epsilon)"),
    ("C13", "fista-gradient-reordered", "tensorly/solvers/nnls.py", "                -UtM + tl.dot(UtU, x_update) + sparsity_coef + 2 * ridge_coef * x_update\n", "                tl.dot(UtU, x_update) - UtM + 2 * ridge_coef * x_update + sparsity_coef\n"),
    ("C12", "hard-threshold-zero-count-returns-zeros", "tensorly/tenalg/proximal.py", "    tensor_vec = tl.copy(tl.tensor_to_vec(tensor))\n    sorted_indices", "    if number_of_non_zero < 1:\n        return tensor * 0\n    tensor_vec = tl.copy(tl.tensor_to_vec(tensor))\n    sorted_indices"),
    ("C12", "hard-threshold-ranks-of-negated-magnitudes", "tensorly/tenalg/proximal.py", "    sorted_indices = tl.argsort(\n        tl.flip(tl.argsort(tl.abs(tensor_vec), axis=0), axis=0), axis=0\n    )", "    sorted_indices = tl.argsort(tl.argsort(-tl.abs(tensor_vec), axis=0), axis=0)"),
    ("C12", "soft-threshold-via-maximum", "tensorly/tenalg/proximal.py", "    return tl.sign(tensor) * tl.clip(tl.abs(tensor) - threshold, a_min=0)", "    shrunk = tl.abs(tensor) - threshold\n    return tl.sign(tensor) * tl.where(shrunk < 0, 0.0, shrunk)"),
    ("C12", "l2-prox-guarded-division", "tensorly/tenalg/proximal.py", "    return tensor - (tensor * regularizer / bigger_value)", "    return tensor - (tensor * regularizer / (bigger_value + 1e-12))"),
    ("C12", "normalized-sparsity-guarded-norm", "tensorly/tenalg/proximal.py", "    return tensor_hard / tl.norm(tensor_hard)", "    return tensor_hard / (tl.norm(tensor_hard) + tl.eps(tensor_hard.dtype))"),
    ("C20", "permute-factors-both-directions-flipped", "tensorly/cp_tensor.py", "            ref_cp_tensor.factors, tensors_to_permute[i].factors\n        )\n        col = T.tensor(col, dtype=T.int64)", "            ref_cp_tensor.factors, tensors_to_permute[i].factors\n        )\n        col = [int(c) for c in col]\n        col = T.tensor(col, dtype=T.int64)"),
    ("C20", "congruence-normalise-via-local", "tensorly/metrics/factors.py", "        mat1 = mat1 / T.norm(mat1, axis=0)\n", "        norms1 = T.norm(mat1, axis=0)\n        mat1 = mat1 / norms1\n"),
    ("C20", "r2-via-ratio", "tensorly/metrics/regression.py", "    return 1 - T.norm(X_predicted - X_original) ** 2.0 / T.norm(X_original) ** 2.0", "    return 1 - (T.norm(X_predicted - X_original) / T.norm(X_original)) ** 2.0"),
    ("C05", "flip-zip-order-swapped-consistently", "tensorly/tenalg/svd.py", "                [U[i, j] for (i, j) in zip(max_abs_cols, range(tl.shape(U)[1]))],", "                [U[i, j] for (j, i) in zip(range(tl.shape(U)[1]), max_abs_cols)],"),
    ("C03", "tucker-norm-of-own-reconstruction", "tensorly/tucker_tensor.py", "    def to_vec(self):\n        return tucker_to_vec(self)\n", "    def to_vec(self):\n        return tucker_to_vec(self)\n\n    def norm(self):\n        return tl.norm(self.to_tensor())\n"),
    ("C06", "hals-last-swept-mode-named", "tensorly/decomposition/_nn_cp.py", "            if normalize_factors and mode != modes[-1]:", "            last_swept_mode = modes[-1]\n            if normalize_factors and mode != last_swept_mode:"),
    ("C20", "correlation-index-conjugates-second-operand", "tensorly/metrics/similarity.py", "    c_prod_mtx = tl.abs(tl.matmul(tl.conj(tl.transpose(x1)), x2))", "    c_prod_mtx = tl.abs(tl.matmul(tl.transpose(x1), tl.conj(x2)))"),
    ("C19", "plsr-predict-centres-out-of-place", "tensorly/regression/cp_plsr.py", "        X = T.copy(X)\n        X -= self.X_mean_\n        X_projection", "        X = X - self.X_mean_\n        X_projection"),
    ("C02", "batched-outer-own-bookkeeping-correct", "tensorly/tenalg/core_tenalg/outer_product.py", "            res = tl.reshape(res, shape_1) * tl.reshape(tensor, shape_2)\n        else:\n            res = tensor\n\n        shape_res = tl.shape(res)\n        size_res = len(shape_res) - 1\n", "            res = tl.reshape(res, shape_1) * tl.reshape(tensor, shape_2)\n            shape_res = shape_res + shape[1:]\n            size_res += size\n        else:\n            res = tensor\n            shape_res = tl.shape(res)\n            size_res = len(shape_res) - 1\n"),
    ("C05", "symeig-normalise-before-product", "tensorly/tenalg/svd.py", "        U = tl.dot(matrix, V) / tl.reshape(S, (1, -1))", "        U = tl.dot(matrix, V / tl.reshape(S, (1, -1)))"),
    ("C05", "flip-sign-broadcast-spelled-differently", "tensorly/tenalg/svd.py", "        U = U * signs\n        if tl.shape(V)[0] > tl.shape(U)[1]:", "        U = signs * U\n        if tl.shape(V)[0] > tl.shape(U)[1]:"),
    ("C09", "tt-svd-carry-via-dot-diag", "tensorly/decomposition/_tt.py", "        unfolding = tl.reshape(S, (-1, 1)) * V\n\n    # Getting the last factor", "        unfolding = V * tl.reshape(S, (-1, 1))\n\n    # Getting the last factor"),
    ("C09", "tt-svd-min-argument-order", "tensorly/decomposition/_tt.py", "        current_rank = min(n_row, n_column, rank[k + 1])", "        current_rank = min(rank[k + 1], n_column, n_row)"),
    ("C08", "tr-svd-rank-rotation-via-open-ring", "tensorly/decomposition/_tr_svd.py", "        rank = rank[mode:-1] + rank[:mode] + [rank[mode]]\n", "        ring = rank[:-1]\n        ring = ring[mode:] + ring[:mode]\n        rank = ring + [ring[0]]\n"),
    ("C05", "nndsvd-positive-part-via-maximum", "tensorly/tenalg/svd.py", "        x_p, y_p = tl.clip(x, a_min=0.0), tl.clip(y, a_min=0.0)", "        x_p, y_p = tl.abs(tl.clip(x, a_min=0.0)), tl.clip(y, a_min=0.0)"),
    ("C04", "cp-mode-dot-contraction-into-weights-stored-back", "tensorly/cp_tensor.py", "        factor = T.dot(matrix_or_vector, factor)\n        mode = max(mode - 1, 0)\n        factors[mode] *= factor\n", "        weights = weights * T.dot(matrix_or_vector, factor)\n        if not copy:\n            cp_tensor.weights = weights\n"),
    ("C14", "parafac2-weights-reset-with-ones-like", "tensorly/decomposition/_parafac2.py", "        weights = T.ones(weights.shape, **tl.context(tensor_slices[0]))\n", "        weights = T.ones(T.shape(weights), **tl.context(tensor_slices[0]))\n"),
    ("C10", "initialize-tucker-abs-skipped-for-nonneg-init", "tensorly/decomposition/_tucker.py", "factors = [tl.abs(f) for f in factors]", "factors = [f if tl.all(f >= 0) else tl.abs(f) for f in factors]"),
    ("C01", "partial-unfold-shape-by-slices", "tensorly/base.py", "    if skip_begin:\n        new_shape = [tensor.shape[i] for i in range(skip_begin)] + new_shape\n\n    if skip_end:\n        new_shape += [tensor.shape[-i] for i in range(skip_end, 0, -1)]\n", "    shape = list(tl.shape(tensor))\n    new_shape = shape[:skip_begin] + new_shape + shape[len(shape) - skip_end :]\n"),
    ("C01", "partial-fold-del-by-position", "tensorly/base.py", "    mode_dim = transposed_shape.pop(skip_begin + mode)", "    mode_dim = transposed_shape.pop(skip_begin + mode)\n    _n_axes = len(transposed_shape)"),
]


def gen_textual_twins() -> List[Variant]:
    out = []
    for prop, vid, rel, old, new in TEXTUAL_TWINS:
        s = _read(rel)
        full = f"{prop}:twin-text:{vid}"
        if s.count(old) != 1:
            out.append(Variant(prop, full, "stale", {}, f"anchor text occurs {s.count(old)} times in {rel}"))
            continue
        t = s.replace(old, new)
        try:
            compile(t, rel, "exec", dont_inherit=True)
        except SyntaxError as e:
            out.append(Variant(prop, full, "stale", {}, f"twin does not compile: {e}"))
            continue
        out.append(Variant(prop, full, "twin", {rel: t}, vid))
    return out


# ---------------------------------------------------------------------------------
# Stored patches: the seeded breaking changes (seeded/<ID>, seeded/round*/<ID>: must be reported
# by the properties recorded as catching them) and the behaviour-preserving refactorings
# (seeded/benign/<ID>/patch*.diff: every property must stay silent).  The patches are applied in
# memory to the current files (pure Python, exact context match with a line-offset search); a patch
# whose context no longer matches is reported as stale, not guessed at.
# ---------------------------------------------------------------------------------
def apply_unified(patch_text: str, read=_read) -> Optional[Dict[str, str]]:
    files: Dict[str, List[tuple]] = {}
    cur = None
    hunk = None
    new_file = set()
    for line in patch_text.splitlines():
        if line.startswith("diff --git"):
            cur = hunk = None
        elif line.startswith("--- "):
            if line[4:].strip() == "/dev/null":
                cur = "<new>"
        elif line.startswith("+++ "):
            path = line[4:].strip()
            path = path[2:] if path.startswith("b/") else path
            if cur == "<new>":
                new_file.add(path)
            cur = path
            files.setdefault(cur, [])
            hunk = None
        elif line.startswith("@@") and cur is not None:
            m = re.match(r"@@ -(\d+)(?:,(\d+))? \+(\d+)(?:,(\d+))? @@", line)
            if not m:
                return None
            hunk = (int(m.group(1)), [], [])
            files[cur].append(hunk)
        elif hunk is not None and cur is not None:
            if line.startswith("\\"):
                continue
            tag, body = (line[0], line[1:]) if line else (" ", "")
            if tag == " ":
                hunk[1].append(body)
                hunk[2].append(body)
            elif tag == "-":
                hunk[1].append(body)
            elif tag == "+":
                hunk[2].append(body)
    out = {}
    for rel, hunks in files.items():
        if rel in new_file:
            out[rel] = "\n".join(l for h in hunks for l in h[2]) + "\n"
            continue
        try:
            text = read(rel)
        except OSError:
            return None
        lines = text.split("\n")
        shift = 0
        for start, olds, news in hunks:
            want = start - 1 + shift
            pos = None
            for d in sorted(range(-60, 61), key=abs):
                i = want + d
                if 0 <= i <= len(lines) - len(olds) and lines[i : i + len(olds)] == olds:
                    pos = i
                    break
            if pos is None:
                return None
            lines[pos : pos + len(olds)] = news
            shift += len(news) - len(olds) + (pos - want)
        out[rel] = "\n".join(lines)
    return out


# stored refactorings on which one check answers "cannot decide": not run as twins of that property
UNDECIDED_REFACTORINGS = {
    ("C07", "benign3-C16-patch2"): "CPRegressor.fit fills its factor list from a local generator function: the number of factors is no longer a count the unit evaluator can name (UPDATE-DEGREE: cannot decide)",
    ("C08", "benign8-C08-patch1"): "partial_tucker completes the core from the last partial projection: CORE-IN-SYNC asks for the multi_mode_dot(tensor, factors, transpose=True) form (cannot decide); DESIGN §31",
}


def gen_patch_variants() -> List[Variant]:
    import glob

    out = []
    root = os.path.join(HERE, "seeded")
    for meta_path in sorted(glob.glob(os.path.join(root, "*", "meta.json")) + glob.glob(os.path.join(root, "round*", "*", "meta.json"))):
        d = os.path.dirname(meta_path)
        if os.path.basename(os.path.dirname(d)).startswith("benign") or os.path.basename(d).startswith("benign"):
            continue
        pf = os.path.join(d, "patch.diff")
        if not os.path.exists(pf):
            continue
        try:
            meta = json.load(open(meta_path))
        except ValueError:
            continue
        props = meta.get("caught_by") or [meta.get("property")]
        name = os.path.relpath(d, root).replace(os.sep, "-")
        ov = apply_unified(open(pf).read())
        for prop in props:
            vid = f"{prop}:seeded-patch:{name}"
            if ov is None:
                out.append(Variant(prop, vid, "stale", {}, f"stored patch {name} no longer applies"))
            else:
                miss = "caught_by" in meta and not meta.get("caught_by")
                out.append(Variant(prop, vid, "mutant", ov, ("recorded miss: " if miss else "") + f"seeded breaking change {name} ({meta.get('property')})"))
    all_props = [f"C{i:02d}" for i in range(1, 21)]
    for pf in sorted(glob.glob(os.path.join(root, "benign*", "*", "patch*.diff"))):
        rnd = os.path.basename(os.path.dirname(os.path.dirname(pf)))
        name = ("" if rnd == "benign" else rnd + "-") + os.path.basename(os.path.dirname(pf)) + "-" + os.path.basename(pf)[:-5]
        ov = apply_unified(open(pf).read())
        for prop in all_props:
            if (prop, name) in UNDECIDED_REFACTORINGS:
                continue  # recorded "cannot decide" (exit 2, never a VIOLATION); see DESIGN §23
            vid = f"{prop}:benign-patch:{name}"
            if ov is None:
                out.append(Variant(prop, vid, "stale", {}, f"stored refactoring {name} no longer applies"))
            else:
                out.append(Variant(prop, vid, "twin", ov, f"behaviour-preserving refactoring {name}"))
    return out


def all_variants() -> List[Variant]:
    return gen_textual() + gen_textual_twins() + gen_generic() + gen_patch_variants()


# ---------------------------------------------------------------------------------
def _run_one(args):
    prop, vid, kind, overlay = args
    from .__main__ import run_property

    code, res = run_property(prop, "quick", 0, overlay=overlay, write=False, quiet=True)
    known = set()
    try:
        from .report import load_known

        known = {k["key"] for k in load_known().get("known", []) if k["property"] == prop}
    except Exception:
        pass
    new = [f for f in res.findings if f.key not in known]
    return vid, code, len(new), [f"{f.rule}: {f.function.rsplit('.', 1)[-1]}: {f.construct[:70]}" for f in new][:2], res.errors[:1]


def run_variants(variants: List[Variant], jobs=None):
    jobs = jobs or min(16, os.cpu_count() or 4)
    work = [(v.prop, v.vid, v.kind, v.overlay) for v in variants if v.kind != "stale"]
    results = {}
    if not work:
        return results
    with ProcessPoolExecutor(max_workers=jobs) as ex:
        for vid, code, n, samples, errs in ex.map(_run_one, work, chunksize=2):
            results[vid] = {"code": code, "findings": n, "samples": samples, "errors": errs}
    return results


def load_catalogue():
    if os.path.exists(CATALOGUE):
        with open(CATALOGUE) as fh:
            return json.load(fh)
    return {}


def run_for(prop: str, seed: int, res) -> dict:
    """Thorough-tier hook: returns extra coverage keys; appends errors to ``res``."""
    cat = load_catalogue()
    variants = [v for v in all_variants() if v.prop == prop]
    results = run_variants(variants)
    mutants = [v for v in variants if v.kind == "mutant"]
    twins = [v for v in variants if v.kind == "twin"]
    stale = [v for v in variants if v.kind == "stale"]
    caught = [v for v in mutants if results[v.vid]["code"] == 1]
    expected = [v for v in mutants if cat.get(v.vid, {}).get("expect") == "fire"]
    missed_expected = [v for v in expected if results[v.vid]["code"] != 1]
    noisy_twins = [v for v in twins if results[v.vid]["code"] != 0]
    broken = [v for v in mutants if results[v.vid]["code"] == 2]
    for v in missed_expected:
        res.error(f"self-test: seeded variant `{v.vid}` ({v.note}) is no longer caught (exit {results[v.vid]['code']}): the checker regressed")
    for v in noisy_twins:
        res.error(f"self-test: benign twin `{v.vid}` ({v.note}) makes the check exit {results[v.vid]['code']} {results[v.vid]['samples']} {results[v.vid]['errors']}: false alarm of the checker")
    if len(stale) > max(2, len(variants) // 5):
        res.error(f"self-test: {len(stale)} of {len(variants)} seeded variants are stale (their anchor text moved); re-calibrate the catalogue")
    known_in_cat = [v for v in mutants if v.vid in cat]
    return {
        "variants_seeded": len(mutants),
        "variants_caught": len(caught),
        "variants_expected_caught": len(expected),
        "variants_expected_but_missed": [v.vid for v in missed_expected],
        "variants_not_in_catalogue": len(mutants) - len(known_in_cat),
        "variants_silent": [v.vid for v in mutants if results[v.vid]["code"] == 0][:40],
        "variants_analysis_error": [v.vid for v in broken][:20],
        "variants_stale": [v.vid for v in stale],
        "twins_run": len(twins),
        "twins_silent": len(twins) - len(noisy_twins),
        "selftest_samples": [{"variant": v.vid, "exit": results[v.vid]["code"], "finding": results[v.vid]["samples"][:1]} for v in caught[:6]],
    }


def main(argv=None):
    import argparse

    ap = argparse.ArgumentParser()
    ap.add_argument("--calibrate", action="store_true")
    ap.add_argument("--list", nargs="?", const="*")
    a = ap.parse_args(argv)
    vs = all_variants()
    if a.list:
        for v in vs:
            if a.list in ("*", v.prop):
                print(v.kind, v.vid, "|", v.note)
        print(len(vs), "variants")
        return 0
    if a.calibrate:
        results = run_variants(vs)
        cat = {}
        summary = {}
        for v in vs:
            if v.kind == "stale":
                print("STALE", v.vid, v.note)
                continue
            r = results[v.vid]
            s = summary.setdefault(v.prop, {"mutants": 0, "caught": 0, "silent": 0, "error": 0, "twins": 0, "twins_noisy": 0})
            if v.kind == "twin":
                s["twins"] += 1
                if r["code"] != 0:
                    s["twins_noisy"] += 1
                    print("NOISY TWIN", v.vid, r)
                continue
            s["mutants"] += 1
            if r["code"] == 1:
                s["caught"] += 1
                cat[v.vid] = {"expect": "fire", "sample": r["samples"][:1]}
            elif r["code"] == 0:
                s["silent"] += 1
                cat[v.vid] = {"expect": "silent"}
                print("silent ", v.vid, "|", v.note)
            else:
                s["error"] += 1
                cat[v.vid] = {"expect": "error", "errors": r["errors"]}
                print("ERROR  ", v.vid, r["errors"])
        with open(CATALOGUE, "w") as fh:
            json.dump(cat, fh, indent=0, sort_keys=True)
        for p, s in sorted(summary.items()):
            print(p, s)
        return 0
    ap.print_help()
    return 0


if __name__ == "__main__":
    sys.exit(main())
